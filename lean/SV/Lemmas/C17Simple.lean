import SV.Lemmas.C17
/-!
Lemmas for the print / parse round trips of C17, part 2: `displaySimple` (`Display for SimplePolynomial`)
against the univariate parser model `SV.C01.parse`.

Route: the printed text without white space is `SV.C01.render v false ts` for the explicit term list
`simpleTerms prec items` (`stripWs_displaySimple`); the terms are well-formed (`simpleTerms_wf`); the
sum of the terms of power `k` is the read-back value of item `k` (`simpleTerms_sum`); then
`parse_render_spec` of `SV.Lemmas.C01` applies.
-/
namespace SV.C17
open SV SV.Text SV.C01

/-! ### the printer, one item at a time -/

/-- the text one non-zero item contributes -/
def piece (prec : Bool) (v : Char) (first : Bool) (i : Nat) (it : Item) : List Char :=
  (if !first ∧ it.sign = .pos then " + ".toList else if it.sign = .neg then " - ".toList else []) ++
    ((if !it.isOne ∨ i = 0 then numText prec it.text else []) ++
      (match i with
        | 0 => []
        | 1 => [v]
        | _ => [v, '^'] ++ natText i))

theorem go_nil (prec : Bool) (v : Char) (first : Bool) (acc : List Char) :
    displaySimple.go prec v [] first acc = if first then acc ++ ['0'] else acc := by
  rw [displaySimple.go]

theorem go_cons (prec : Bool) (v : Char) (i : Nat) (it : Item) (rest : List (Nat × Item))
    (first : Bool) (acc : List Char) :
    displaySimple.go prec v ((i, it) :: rest) first acc =
      if it.sign = .zero then displaySimple.go prec v rest first acc
      else displaySimple.go prec v rest false (acc ++ piece prec v first i it) := by
  rw [displaySimple.go]
  by_cases hz : it.sign = .zero
  · rw [if_pos hz, if_pos hz]
  · rw [if_neg hz, if_neg hz]
    unfold piece
    rcases i with _ | _ | i <;> split_ifs <;> simp

/-- the accumulator is only appended to -/
theorem go_acc (prec : Bool) (v : Char) (l : List (Nat × Item)) (first : Bool) (acc : List Char) :
    displaySimple.go prec v l first acc = acc ++ displaySimple.go prec v l first [] := by
  induction l generalizing first acc with
  | nil => rw [go_nil, go_nil]; cases first <;> simp
  | cons p rest ih =>
    rcases p with ⟨i, it⟩
    rw [go_cons, go_cons]
    by_cases hz : it.sign = .zero
    · rw [if_pos hz, if_pos hz]; exact ih first acc
    · rw [if_neg hz, if_neg hz, ih false (acc ++ _), ih false ([] ++ _)]
      simp

/-! ### the term list a coefficient vector is printed as -/

def bodyOf (i : Nat) : Body :=
  match i with
  | 0 => .const
  | 1 => .var
  | _ => .varPow (natText i)

/-- the term a non-zero item at position `i` is printed as: sign, coefficient unless it is a unit and the
variable follows, power `i` -/
def termOf (prec : Bool) (p : Nat × Item) : TermSyn :=
  ⟨decide (p.2.sign = .neg),
    if !p.2.isOne ∨ p.1 = 0 then some (udecOf (numText prec p.2.text)) else none,
    bodyOf p.1⟩

def termsOf (prec : Bool) (l : List (Nat × Item)) : List TermSyn :=
  l.filterMap fun p => if p.2.sign = .zero then none else some (termOf prec p)

/-- the term the zero polynomial is printed as: `0` -/
def zeroTerm : TermSyn := ⟨false, some ⟨['0'], [], false⟩, .const⟩

/-- the terms of the printed text, highest power first -/
def simpleTerms (prec : Bool) (items : List Item) : List TermSyn :=
  match termsOf prec ((List.range items.length).zip items).reverse with
  | [] => [zeroTerm]
  | ts => ts

theorem bodyOf_pow (i : Nat) : (bodyOf i).pow = i := by
  rcases i with _ | _ | i
  · rfl
  · rfl
  · simp only [bodyOf, Body.pow, digitsVal_natText]

theorem termOf_pow (prec : Bool) (p : Nat × Item) : (termOf prec p).pow = p.1 := bodyOf_pow p.1

theorem bodyOf_render (v : Char) (i : Nat) :
    (bodyOf i).render v = (match i with
        | 0 => []
        | 1 => [v]
        | _ => [v, '^'] ++ natText i) := by
  rcases i with _ | _ | i <;> rfl

theorem termOf_wf {cap : Nat} (prec : Bool) {p : Nat × Item} (ht : IsSpelling p.2.text)
    (hp : p.1 ≤ cap) : (termOf prec p).WF cap := by
  rcases p with ⟨i, it⟩
  refine ⟨?_, ?_, ?_⟩
  · intro u hu
    simp only [termOf] at hu
    split at hu
    · simp only [Option.some.injEq] at hu
      subst hu
      exact (ht.numText prec).udecOf.1
    · simp at hu
  · intro hb
    have hi : i = 0 := by
      have := bodyOf_pow i
      simp only [termOf] at hb
      rw [hb] at this
      exact this.symm
    simp [termOf, hi]
  · intro ds hb
    simp only [termOf] at hb
    rcases i with _ | _ | i
    · simp [bodyOf] at hb
    · simp [bodyOf] at hb
    · simp only [bodyOf, Body.varPow.injEq] at hb
      subst hb
      exact ⟨natText_ne_nil _, natText_digits _, by rw [digitsVal_natText]; exact hp⟩

theorem zeroTerm_wf (cap : Nat) : zeroTerm.WF cap := by
  refine ⟨?_, ?_, ?_⟩
  · intro u hu
    simp only [zeroTerm, Option.some.injEq] at hu
    subst hu
    exact UDec.wf_of_wfb (by decide)
  · intro _; simp [zeroTerm]
  · intro ds hb; simp [zeroTerm] at hb

/-- the text of a piece after its separator is the term without its sign -/
theorem piece_eq (prec : Bool) (v : Char) (first : Bool) (i : Nat) {it : Item}
    (ht : IsSpelling it.text) :
    piece prec v first i it =
      (if !first ∧ it.sign = .pos then " + ".toList else if it.sign = .neg then " - ".toList else []) ++
        (termOf prec (i, it)).renderAbs v := by
  unfold piece TermSyn.renderAbs
  congr 2
  · simp only [termOf]
    split
    · simp only [renderCoef]
      exact ((ht.numText prec).udecOf.2.2).symm
    · rfl
  · exact (bodyOf_render v i).symm

/-! ### white space -/

theorem stripWs_append (cc : CharClass) (a b : List Char) :
    stripWs cc (a ++ b) = stripWs cc a ++ stripWs cc b := by
  simp [stripWs]

theorem stripWs_renderAbs {cc : CharClass} (hcc : cc.Sane) {cap : Nat} {v : Char}
    (hv : cc.isAlpha v = true) {t : TermSyn} (ht : t.WF cap) :
    stripWs cc (t.renderAbs v) = t.renderAbs v :=
  stripWs_eq_self fun _ hc => (mem_renderAbs ht hc).not_ws hcc hv

theorem stripWs_plus {cc : CharClass} (hcc : cc.Sane) (hsp : cc.isWs ' ' = true) :
    stripWs cc [' ', '+', ' '] = ['+'] := by
  simp [stripWs, hsp, hcc.sym_not_ws.2.1]

theorem stripWs_minus {cc : CharClass} (hcc : cc.Sane) (hsp : cc.isWs ' ' = true) :
    stripWs cc [' ', '-', ' '] = ['-'] := by
  simp [stripWs, hsp, hcc.sym_not_ws.2.2.1]

/-- the later terms of a rendering -/
def renderTail (v : Char) (ts : List TermSyn) : List Char :=
  ts.flatMap fun t => (if t.neg then '-' else '+') :: t.renderAbs v

theorem render_cons (v : Char) (t : TermSyn) (ts : List TermSyn) :
    render v false (t :: ts) = (if t.neg then ['-'] else []) ++ t.renderAbs v ++ renderTail v ts := by
  simp [render, renderTail]

/-- the items of the list that are printed are spelled properly and their powers are within the cap -/
def GoodPairs (cap : Nat) (l : List (Nat × Item)) : Prop :=
  ∀ p ∈ l, p.1 ≤ cap ∧ (p.2.sign ≠ .zero → IsSpelling p.2.text)

theorem GoodPairs.tail {cap : Nat} {p : Nat × Item} {l : List (Nat × Item)}
    (h : GoodPairs cap (p :: l)) : GoodPairs cap l := fun q hq => h q (by simp [hq])

theorem termsOf_wf {cap : Nat} (prec : Bool) {l : List (Nat × Item)} (h : GoodPairs cap l) :
    WellFormed cap (termsOf prec l) := by
  intro t ht
  simp only [termsOf, List.mem_filterMap] at ht
  obtain ⟨p, hp, hpt⟩ := ht
  split at hpt
  · simp at hpt
  · rename_i hz
    simp only [Option.some.injEq] at hpt
    subst hpt
    exact termOf_wf prec ((h p hp).2 hz) (h p hp).1

theorem termsOf_cons_zero (prec : Bool) {p : Nat × Item} (l : List (Nat × Item))
    (h : p.2.sign = .zero) : termsOf prec (p :: l) = termsOf prec l := by
  simp [termsOf, h]

theorem termsOf_cons_nonzero (prec : Bool) {p : Nat × Item} (l : List (Nat × Item))
    (h : p.2.sign ≠ .zero) : termsOf prec (p :: l) = termOf prec p :: termsOf prec l := by
  simp [termsOf, h]

/-- after the first printed term: every term with its operator -/
theorem stripWs_go_later {cc : CharClass} (hcc : cc.Sane) (hsp : cc.isWs ' ' = true) {cap : Nat}
    {v : Char} (hv : cc.isAlpha v = true) (prec : Bool) (l : List (Nat × Item))
    (h : GoodPairs cap l) :
    stripWs cc (displaySimple.go prec v l false []) = renderTail v (termsOf prec l) := by
  induction l with
  | nil => rw [go_nil]; rfl
  | cons p rest ih =>
    rcases p with ⟨i, it⟩
    rw [go_cons]
    by_cases hz : it.sign = .zero
    · rw [if_pos hz, termsOf_cons_zero prec rest hz]
      exact ih h.tail
    · have hgood := h (i, it) (by simp)
      have hsp' := hgood.2 hz
      have hwf : (termOf prec (i, it)).WF cap := termOf_wf prec hsp' hgood.1
      rw [if_neg hz, termsOf_cons_nonzero prec rest hz, go_acc, stripWs_append, ih h.tail,
        List.nil_append, piece_eq prec v false i hsp', stripWs_append, stripWs_renderAbs hcc hv hwf]
      simp only [renderTail, List.flatMap_cons, List.cons_append]
      cases hs : it.sign with
      | zero => exact absurd hs hz
      | pos => simp [termOf, hs, stripWs_plus hcc hsp]
      | neg => simp [termOf, hs, stripWs_minus hcc hsp]

/-- from the start: `0` if nothing is printed, else the rendering of the terms -/
theorem stripWs_go_first {cc : CharClass} (hcc : cc.Sane) (hsp : cc.isWs ' ' = true) {cap : Nat}
    {v : Char} (hv : cc.isAlpha v = true) (prec : Bool) (l : List (Nat × Item))
    (h : GoodPairs cap l) :
    stripWs cc (displaySimple.go prec v l true []) =
      render v false (match termsOf prec l with
        | [] => [zeroTerm]
        | ts => ts) := by
  induction l with
  | nil =>
    rw [go_nil]
    have : cc.isWs '0' = false := hcc.digit_not_ws '0' (by decide)
    simp [termsOf, render, zeroTerm, TermSyn.renderAbs, renderCoef, UDec.render, Body.render, stripWs,
      this]
  | cons p rest ih =>
    rcases p with ⟨i, it⟩
    rw [go_cons]
    by_cases hz : it.sign = .zero
    · rw [if_pos hz, termsOf_cons_zero prec rest hz]
      exact ih h.tail
    · have hgood := h (i, it) (by simp)
      have hsp' := hgood.2 hz
      have hwf : (termOf prec (i, it)).WF cap := termOf_wf prec hsp' hgood.1
      rw [if_neg hz, termsOf_cons_nonzero prec rest hz, go_acc, stripWs_append,
        stripWs_go_later hcc hsp hv prec rest h.tail,
        List.nil_append, piece_eq prec v true i hsp', stripWs_append, stripWs_renderAbs hcc hv hwf]
      simp only [render_cons]
      congr 2
      cases hs : it.sign with
      | zero => exact absurd hs hz
      | pos => simp [termOf, hs, stripWs]
      | neg => simp [termOf, hs, stripWs_minus hcc hsp]

/-! ### the pairs `(power, item)` of a coefficient vector -/

theorem mem_pairs {items : List Item} {p : Nat × Item}
    (h : p ∈ ((List.range items.length).zip items).reverse) : p.1 < items.length ∧ p.2 ∈ items := by
  rw [List.mem_reverse] at h
  rcases p with ⟨i, it⟩
  have := List.of_mem_zip h
  exact ⟨List.mem_range.1 this.1, this.2⟩

/-- the formatter hypothesis for a coefficient vector: every non-zero item is spelled as a plain
decimal with an integer digit -/
def ItemsSpelled (items : List Item) : Prop := ∀ it ∈ items, it.sign ≠ .zero → IsSpelling it.text

theorem goodPairs_of_items {cap : Nat} {items : List Item} (hlen : items.length ≤ cap + 1)
    (h : ItemsSpelled items) : GoodPairs cap ((List.range items.length).zip items).reverse := by
  intro p hp
  obtain ⟨h1, h2⟩ := mem_pairs hp
  exact ⟨by omega, h p.2 h2⟩

theorem simpleTerms_wf {cap : Nat} (prec : Bool) {items : List Item}
    (hlen : items.length ≤ cap + 1) (h : ItemsSpelled items) :
    WellFormed cap (simpleTerms prec items) := by
  have := termsOf_wf prec (goodPairs_of_items hlen h)
  unfold simpleTerms
  split
  · intro t ht
    simp only [List.mem_cons, List.not_mem_nil, or_false] at ht
    subst ht
    exact zeroTerm_wf cap
  · exact this

/-- **the printed text without its white space is the rendering of `simpleTerms`** -/
theorem stripWs_displaySimple {cc : CharClass} (hcc : cc.Sane) (hsp : cc.isWs ' ' = true) {cap : Nat}
    (prec : Bool) (var : Option Char) (hv : cc.isAlpha (var.getD 'x') = true) {items : List Item}
    (hlen : items.length ≤ cap + 1) (h : ItemsSpelled items) :
    stripWs cc (displaySimple prec var items) = render (var.getD 'x') false (simpleTerms prec items) :=
  stripWs_go_first hcc hsp hv prec _ (goodPairs_of_items hlen h)

/-! ### values -/

/-- the magnitude read back for item `i`: 1 if the coefficient was elided, else the value of its text -/
def magOf (i : Nat) (it : Item) : ℚ := if !it.isOne ∨ i = 0 then textValue it.text else 1

/-- the coefficient read back for item `i` -/
def rv (p : Nat × Item) : ℚ :=
  match p.2.sign with
  | .zero => 0
  | .pos => magOf p.1 p.2
  | .neg => -magOf p.1 p.2

/-- the coefficient read back at position `k` of a coefficient vector -/
def readBack (items : List Item) (k : Nat) : ℚ :=
  match items[k]? with
  | some it => rv (k, it)
  | none => 0

theorem termOf_value (prec : Bool) {p : Nat × Item} (hz : p.2.sign ≠ .zero)
    (ht : IsSpelling p.2.text) : (termOf prec p).value = rv p := by
  rcases p with ⟨i, it⟩
  have hc : coefValue (termOf prec (i, it)).coef = magOf i it := by
    simp only [termOf, magOf]
    split
    · simp only [coefValue]
      exact textValue_numText ht prec
    · rfl
  unfold TermSyn.value
  rw [hc]
  simp only [termOf, rv]
  cases hs : it.sign with
  | zero => exact absurd hs hz
  | pos => simp
  | neg => simp

theorem termsOf_sum {cap : Nat} (prec : Bool) (k : Nat) (l : List (Nat × Item))
    (h : GoodPairs cap l) :
    (((termsOf prec l).filter fun t => decide (t.pow = k)).map TermSyn.value).sum =
      (l.map fun p => if p.1 = k then rv p else 0).sum := by
  induction l with
  | nil => rfl
  | cons p rest ih =>
    rw [List.map_cons, List.sum_cons, ← ih h.tail]
    by_cases hz : p.2.sign = .zero
    · rw [termsOf_cons_zero prec rest hz]
      have : rv p = 0 := by simp [rv, hz]
      simp [this]
    · rw [termsOf_cons_nonzero prec rest hz, List.filter_cons, termOf_pow]
      have hval := termOf_value prec hz ((h p (by simp)).2 hz)
      by_cases hk : p.1 = k
      · simp [hk, hval]
      · simp [hk]

theorem zip_range'_sum (f : Nat × Item → ℚ) (k : Nat) (items : List Item) (s : Nat) :
    (((List.range' s items.length).zip items).map fun p => if p.1 = k then f p else 0).sum =
      (match items[k - s]? with
        | some it => if s ≤ k then f (k, it) else 0
        | none => 0) := by
  induction items generalizing s with
  | nil => simp
  | cons it rest ih =>
    rw [List.length_cons, List.range'_succ, List.zip_cons_cons, List.map_cons, List.sum_cons, ih (s + 1)]
    rcases Nat.lt_trichotomy s k with hlt | heq | hgt
    · have e : k - s = (k - (s + 1)) + 1 := by omega
      rw [e, List.getElem?_cons_succ]
      have h1 : s ≠ k := by omega
      have h2 : s + 1 ≤ k := by omega
      have h3 : s ≤ k := by omega
      simp only [h1, h2, h3, if_false, if_true, zero_add]
    · subst heq
      have h2 : ¬ (s + 1 ≤ s) := by omega
      simp only [Nat.sub_self, List.getElem?_cons_zero, if_true, le_refl, h2, if_false]
      cases rest[s - (s + 1)]? <;> simp
    · have h1 : s ≠ k := by omega
      have h2 : ¬ (s + 1 ≤ k) := by omega
      have h3 : ¬ (s ≤ k) := by omega
      simp only [h1, h2, h3, if_false]
      cases rest[k - (s + 1)]? <;> cases (it :: rest)[k - s]? <;> simp

/-- **the terms of power `k` sum to the read-back value of item `k`** -/
theorem simpleTerms_sum {cap : Nat} (prec : Bool) {items : List Item}
    (hlen : items.length ≤ cap + 1) (h : ItemsSpelled items) (k : Nat) :
    (((simpleTerms prec items).filter fun t => decide (t.pow = k)).map TermSyn.value).sum =
      readBack items k := by
  have hsum := termsOf_sum prec k _ (goodPairs_of_items hlen h)
  rw [List.map_reverse, List.sum_reverse, List.range_eq_range', zip_range'_sum rv k items 0] at hsum
  simp only [Nat.sub_zero, Nat.zero_le, if_true] at hsum
  have hz : ((([zeroTerm] : List TermSyn).filter fun t => decide (t.pow = k)).map TermSyn.value).sum = 0 := by
    have : zeroTerm.value = 0 := by
      simp [zeroTerm, TermSyn.value, coefValue, UDec.value, UDec.mant, digitsVal, digitVal]
    rw [List.filter_cons]
    split <;> simp [this]
  unfold simpleTerms readBack
  rw [← List.range_eq_range'] at hsum
  split
  · rename_i hnil
    rw [hnil] at hsum
    rw [hz, ← hsum]; rfl
  · exact hsum

/-! ### which terms are printed: length of the read-back vector and its variable -/

theorem mem_zip_range {items : List Item} {k : Nat} {it : Item} :
    (k, it) ∈ (List.range items.length).zip items ↔ items[k]? = some it := by
  constructor
  · intro h
    obtain ⟨j, hj, hje⟩ := List.mem_iff_getElem.1 h
    rw [List.getElem_zip, List.getElem_range] at hje
    simp only [Prod.mk.injEq] at hje
    obtain ⟨rfl, rfl⟩ := hje
    rw [List.length_zip, List.length_range, Nat.min_self] at hj
    exact List.getElem?_eq_getElem hj
  · intro h
    obtain ⟨hk, rfl⟩ := List.getElem?_eq_some_iff.1 h
    have hk' : k < ((List.range items.length).zip items).length := by
      rw [List.length_zip, List.length_range, Nat.min_self]; exact hk
    refine List.mem_iff_getElem.2 ⟨k, hk', ?_⟩
    rw [List.getElem_zip, List.getElem_range]

theorem mem_termsOf {prec : Bool} {items : List Item} {t : TermSyn} :
    t ∈ termsOf prec ((List.range items.length).zip items).reverse ↔
      ∃ k it, items[k]? = some it ∧ it.sign ≠ .zero ∧ t = termOf prec (k, it) := by
  simp only [termsOf, List.mem_filterMap, List.mem_reverse]
  constructor
  · rintro ⟨⟨k, it⟩, hmem, h⟩
    split at h
    · simp at h
    · rename_i hz
      simp only [Option.some.injEq] at h
      exact ⟨k, it, mem_zip_range.1 hmem, hz, h.symm⟩
  · rintro ⟨k, it, hk, hz, rfl⟩
    exact ⟨(k, it), mem_zip_range.2 hk, by simp [hz]⟩

theorem mem_simpleTerms {prec : Bool} {items : List Item} {t : TermSyn}
    (h : t ∈ simpleTerms prec items) :
    t = zeroTerm ∨ ∃ k it, items[k]? = some it ∧ it.sign ≠ .zero ∧ t = termOf prec (k, it) := by
  unfold simpleTerms at h
  split at h
  · left; simpa using h
  · right; exact mem_termsOf.1 h

theorem termOf_mem_simpleTerms (prec : Bool) {items : List Item} {k : Nat} {it : Item}
    (hk : items[k]? = some it) (hz : it.sign ≠ .zero) : termOf prec (k, it) ∈ simpleTerms prec items := by
  have hmem : termOf prec (k, it) ∈ termsOf prec ((List.range items.length).zip items).reverse :=
    mem_termsOf.2 ⟨k, it, hk, hz, rfl⟩
  unfold simpleTerms
  split
  · rename_i hnil; rw [hnil] at hmem; simp at hmem
  · exact hmem

/-- the read-back vector reaches exactly up to the highest non-zero item (one entry for the zero polynomial) -/
theorem maxPow_simpleTerms (prec : Bool) (items : List Item) :
    (∀ k it, items[k]? = some it → it.sign ≠ .zero → k ≤ maxPow (simpleTerms prec items)) ∧
      (maxPow (simpleTerms prec items) = 0 ∨
        ∃ it, items[maxPow (simpleTerms prec items)]? = some it ∧ it.sign ≠ .zero) := by
  constructor
  · intro k it hk hz
    have := pow_le_maxPow (termOf_mem_simpleTerms prec hk hz)
    rwa [termOf_pow] at this
  · have hne : simpleTerms prec items ≠ [] := by
      unfold simpleTerms; split <;> simp_all
    obtain ⟨t, ht, hpow⟩ := maxPow_attained hne
    rcases mem_simpleTerms ht with rfl | ⟨k, it, hk, hz, rfl⟩
    · left; rw [← hpow]; rfl
    · right
      rw [termOf_pow] at hpow
      simp only at hpow
      exact ⟨it, by rw [← hpow]; exact hk, hz⟩

theorem bodyOf_writesVar (i : Nat) : (bodyOf i).writesVar = decide (i ≠ 0) := by
  rcases i with _ | _ | i <;> rfl

/-- the variable is written iff an item above the constant is non-zero -/
theorem writesVar_simpleTerms (prec : Bool) (items : List Item) :
    writesVar (simpleTerms prec items) = true ↔
      ∃ k it, 1 ≤ k ∧ items[k]? = some it ∧ it.sign ≠ .zero := by
  unfold writesVar
  rw [List.any_eq_true]
  constructor
  · rintro ⟨t, ht, hw⟩
    rcases mem_simpleTerms ht with rfl | ⟨k, it, hk, hz, rfl⟩
    · simp [zeroTerm, Body.writesVar] at hw
    · simp only [termOf, bodyOf_writesVar, decide_eq_true_eq] at hw
      exact ⟨k, it, by omega, hk, hz⟩
  · rintro ⟨k, it, h1, hk, hz⟩
    refine ⟨_, termOf_mem_simpleTerms prec hk hz, ?_⟩
    simp only [termOf, bodyOf_writesVar, decide_eq_true_eq]
    omega

/-! ### the parser on the printed text -/

theorem parse_displaySimple {cc : CharClass} (hcc : cc.Sane) (hsp : cc.isWs ' ' = true) (cap : Nat)
    (prec : Bool) (var : Option Char) (hv : cc.isAlpha (var.getD 'x') = true) {items : List Item}
    (hlen : items.length ≤ cap + 1) (h : ItemsSpelled items) :
    ∃ p, parse cc cap (displaySimple prec var items) = .ok p ∧
      p.var = (if writesVar (simpleTerms prec items) then some (var.getD 'x') else none) ∧
      p.coeffs.length = maxPow (simpleTerms prec items) + 1 ∧
      ∀ k, (p.coeffs.getD k Num.zero).val = readBack items k := by
  obtain ⟨p, hp, hvar, hl, hval⟩ := parse_render_spec hcc (VarOK.of_alpha hcc hv)
    (simpleTerms_wf prec hlen h) (fun _ => hv)
    (stripWs_displaySimple hcc hsp prec var hv hlen h)
  exact ⟨p, hp, hvar, hl, fun k => by rw [hval k, simpleTerms_sum prec hlen h k]⟩

end SV.C17

namespace SV.C17
open SV SV.Text SV.C01

/-! ### items that describe a rational coefficient vector -/

/-- sign class of a number (the printers test `c < 0`, `c > 0`, `c == 0`) -/
def signOfQ (c : ℚ) : Sign := if c < 0 then .neg else if 0 < c then .pos else .zero

/-- **Formatter hypothesis for one coefficient** `c` and its item:
the sign class is the sign of `c`; the unit flag is set only if `|c| = 1` (it is computed from the
float, so in the code it is set *iff* `|c| = 1`; only this direction is needed); if `c ≠ 0` the text is
a plain decimal spelling with an integer digit, and its value is `|c|` (`digits = none`: Rust's
shortest round-trip `{}`) resp. within half a unit of the `d`-th decimal of `|c|` (`digits = some d`:
`{:.d}`). -/
structure ItemOK (digits : Option Nat) (it : Item) (c : ℚ) : Prop where
  sign : it.sign = signOfQ c
  one : it.isOne = true → |c| = 1
  spelled : c ≠ 0 → IsSpelling it.text
  value : c ≠ 0 → match digits with
    | none => textValue it.text = |c|
    | some d => |textValue it.text - abs c| ≤ 1 / 2 * (1 / 10 : ℚ) ^ d

/-- the items describe the coefficient vector `cs` (position `k` = power `k`) -/
def ItemsOK (digits : Option Nat) (items : List Item) (cs : List ℚ) : Prop :=
  items.length = cs.length ∧ ∀ k it, items[k]? = some it → ItemOK digits it (cs.getD k 0)

theorem ItemsOK.nil (digits : Option Nat) : ItemsOK digits [] [] :=
  ⟨rfl, fun k it hk => by simp at hk⟩

theorem ItemsOK.cons {digits : Option Nat} {it : Item} {c : ℚ} {items : List Item} {cs : List ℚ}
    (h : ItemOK digits it c) (hs : ItemsOK digits items cs) : ItemsOK digits (it :: items) (c :: cs) := by
  refine ⟨by simp [hs.1], fun k it' hk => ?_⟩
  cases k with
  | zero =>
    simp only [List.getElem?_cons_zero, Option.some.injEq] at hk
    subst hk
    simpa using h
  | succ k =>
    simp only [List.getElem?_cons_succ] at hk
    simpa using hs.2 k it' hk

/-- the value of a concrete spelling, from the parser's reading of it (for examples) -/
theorem textValue_of_parse {t : List Char} {m sc : Nat} (hs : isSpellingB t = true)
    (h : parseUDec t = some (m, sc)) : textValue t = (m : ℚ) / (10 : ℚ) ^ sc := by
  obtain ⟨m', sc', h', hv⟩ := parseUDec_spelling (isSpelling_of_b hs)
  rw [h] at h'
  simp only [Option.some.injEq, Prod.mk.injEq] at h'
  rw [← hv, h'.1, h'.2]

theorem signOfQ_zero {c : ℚ} : signOfQ c = .zero ↔ c = 0 := by
  unfold signOfQ
  split_ifs with h1 h2
  · simp; exact ne_of_lt h1
  · simp; exact ne_of_gt h2
  · simp; exact le_antisymm (not_lt.1 h2) (not_lt.1 h1)

theorem signOfQ_pos {c : ℚ} : signOfQ c = .pos ↔ 0 < c := by
  unfold signOfQ
  split_ifs with h1 h2
  · simp; exact le_of_lt h1
  · simp [h2]
  · simp [h2]

theorem signOfQ_neg {c : ℚ} : signOfQ c = .neg ↔ c < 0 := by
  unfold signOfQ
  split_ifs with h1 h2
  · simp [h1]
  · simp [h1]
  · simp [h1]

theorem ItemsOK.spelled {digits : Option Nat} {items : List Item} {cs : List ℚ}
    (h : ItemsOK digits items cs) : ItemsSpelled items := by
  intro it hit hz
  obtain ⟨k, hk, rfl⟩ := List.mem_iff_getElem.1 hit
  have hok := h.2 k items[k] (List.getElem?_eq_getElem hk)
  apply hok.spelled
  intro hc
  exact hz (by rw [hok.sign]; exact signOfQ_zero.2 hc)

/-- default formatting: the read-back coefficient is the coefficient -/
theorem ItemOK.rv_exact {it : Item} {c : ℚ} (h : ItemOK none it c) (k : Nat) : rv (k, it) = c := by
  unfold rv
  simp only
  cases hs : it.sign with
  | zero => rw [h.sign] at hs; exact (signOfQ_zero.1 hs).symm
  | pos =>
    rw [h.sign] at hs
    have hc : 0 < c := signOfQ_pos.1 hs
    have hv := h.value (ne_of_gt hc)
    simp only [abs_of_pos hc] at hv
    simp only [magOf]
    split
    · exact hv
    · rename_i hne
      have h1 : it.isOne = true := by
        cases hb : it.isOne with
        | true => rfl
        | false => exact absurd (Or.inl (by simp [hb])) hne
      have := h.one h1
      rw [abs_of_pos hc] at this
      exact this.symm
  | neg =>
    rw [h.sign] at hs
    have hc : c < 0 := signOfQ_neg.1 hs
    have hv := h.value (ne_of_lt hc)
    simp only [abs_of_neg hc] at hv
    simp only [magOf]
    split
    · rw [hv]; ring
    · rename_i hne
      have h1 : it.isOne = true := by
        cases hb : it.isOne with
        | true => rfl
        | false => exact absurd (Or.inl (by simp [hb])) hne
      have := h.one h1
      rw [abs_of_neg hc] at this
      rw [← this]; ring

/-- precision formatting: the read-back coefficient is within half a unit of the last decimal -/
theorem ItemOK.rv_prec {it : Item} {c : ℚ} {d : Nat} (h : ItemOK (some d) it c) (k : Nat) :
    |rv (k, it) - c| ≤ 1 / 2 * (1 / 10 : ℚ) ^ d := by
  have hb : (0 : ℚ) ≤ 1 / 2 * (1 / 10 : ℚ) ^ d := by
    apply mul_nonneg (by norm_num) (pow_nonneg (by norm_num) _)
  unfold rv
  simp only
  cases hs : it.sign with
  | zero =>
    rw [h.sign] at hs
    rw [signOfQ_zero.1 hs, sub_self, abs_zero]
    exact hb
  | pos =>
    rw [h.sign] at hs
    have hc : 0 < c := signOfQ_pos.1 hs
    have hv := h.value (ne_of_gt hc)
    simp only [abs_of_pos hc] at hv
    simp only [magOf]
    split
    · exact hv
    · rename_i hne
      have h1 : it.isOne = true := by
        cases hb : it.isOne with
        | true => rfl
        | false => exact absurd (Or.inl (by simp [hb])) hne
      have := h.one h1
      rw [abs_of_pos hc] at this
      rw [this, sub_self, abs_zero]; exact hb
  | neg =>
    rw [h.sign] at hs
    have hc : c < 0 := signOfQ_neg.1 hs
    have hv := h.value (ne_of_lt hc)
    simp only [abs_of_neg hc] at hv
    simp only [magOf]
    split
    · have e : -textValue it.text - c = -(textValue it.text - -c) := by ring
      rw [e, abs_neg]; exact hv
    · rename_i hne
      have h1 : it.isOne = true := by
        cases hb : it.isOne with
        | true => rfl
        | false => exact absurd (Or.inl (by simp [hb])) hne
      have := h.one h1
      rw [abs_of_neg hc] at this
      have e : (-1 : ℚ) - c = 0 := by rw [← this]; ring
      rw [e, abs_zero]; exact hb

theorem readBack_exact {items : List Item} {cs : List ℚ} (h : ItemsOK none items cs) (k : Nat) :
    readBack items k = cs.getD k 0 := by
  unfold readBack
  cases hk : items[k]? with
  | none =>
    have : cs.length ≤ k := by rw [← h.1]; exact List.getElem?_eq_none_iff.1 hk
    simp [List.getD, List.getElem?_eq_none this]
  | some it => exact (h.2 k it hk).rv_exact k

theorem readBack_prec {items : List Item} {cs : List ℚ} {d : Nat} (h : ItemsOK (some d) items cs)
    (k : Nat) : |readBack items k - cs.getD k 0| ≤ 1 / 2 * (1 / 10 : ℚ) ^ d := by
  unfold readBack
  cases hk : items[k]? with
  | none =>
    have : cs.length ≤ k := by rw [← h.1]; exact List.getElem?_eq_none_iff.1 hk
    have hb : (0 : ℚ) ≤ 1 / 2 * (1 / 10 : ℚ) ^ d := by
      apply mul_nonneg (by norm_num) (pow_nonneg (by norm_num) _)
    rw [List.getD, List.getElem?_eq_none this, Option.getD_none, sub_self, abs_zero]
    exact hb
  | some it => exact (h.2 k it hk).rv_prec k

/-! ### the zero polynomial -/

theorem go_all_zero (prec : Bool) (v : Char) (l : List (Nat × Item)) (first : Bool) (acc : List Char)
    (h : ∀ p ∈ l, p.2.sign = .zero) :
    displaySimple.go prec v l first acc = if first then acc ++ ['0'] else acc := by
  induction l with
  | nil => exact go_nil prec v first acc
  | cons p rest ih =>
    rcases p with ⟨i, it⟩
    rw [go_cons, if_pos (h (i, it) (by simp))]
    exact ih fun q hq => h q (by simp [hq])

/-- a vector of zeros (also the empty vector) is printed as `0` -/
theorem displaySimple_zero (prec : Bool) (var : Option Char) {items : List Item}
    (h : ∀ it ∈ items, it.sign = .zero) : displaySimple prec var items = ['0'] := by
  unfold displaySimple
  simp only
  rw [go_all_zero _ _ _ _ _ fun p hp => h p.2 (mem_pairs hp).2]
  rfl

end SV.C17
