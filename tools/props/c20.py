"""C20 plug-in: `m1`/`m2` answers (the macro's value printed by the generated program) are compared with the parser
models like C01/C02 `parse` answers; `bad` answers are `err <Kind>` on both sides."""
import os, importlib.util
from fractions import Fraction
from oracle_util import *
_here = os.path.dirname(os.path.abspath(__file__))
def _load(name):
    spec = importlib.util.spec_from_file_location("prop_" + name, os.path.join(_here, name + ".py"))
    m = importlib.util.module_from_spec(spec); spec.loader.exec_module(m); return m
_c01, _c02 = _load("c01"), _load("c02")
CHUNK_MIN = 1200   # one generated crate per chunk: keep chunks large

RULE = ("(round 5: all-zero and cancelling results at every size - zero written as a coefficient [0 x^N, 0.0x^N, -0 x^N] and terms that cancel [x^N - x^N, p - p, x^N + x^N - 2x^N] at every degree 0..40 and at 65, 129, 257, 513, 1023, 1024, 1025, 1500, 4096, 65536, and results with a single non-zero coefficient at the top / the bottom / next to the top at the same degrees, for both macros incl. two-variable cancellations; macro vs runtime compared field for field, vector LENGTH included) (hardening: texts of 700..2000 characters, 15+ digit coefficients / fraction parts / exponents, exponents 1e-300..1e300, one literal per decade 1e-320..1e308, signed zeros, the largest dense power, 16 univariate and 26 multivariate variable letters, the macros reached through spindalis_macros::, spindalis::polynomials::, spindalis::polynomials::macros:: and forwarded through a declarative macro, invalid texts of every error kind of both runtime parsers alone and inside correct polynomials, every rejected invocation between two correct ones on adjacent lines; every white-space character of the Rust tokenizer that is also White_Space - U+0009..U+000D, U+0020, U+0085, U+2028, U+2029 - as a raw character in the SOURCE of the invocation, between terms, inside a term, inside a number, around '^' and '/', leading and trailing, alone, in mixtures and runs, and sprinkled over 300..700-character texts, while the runtime parser reads the same source text; U+200E / U+200F only as the corpus lines of the open finding F-C20-lrm) macro invocations of both polynomial macros on grammar texts of 5..600 characters (ASCII white space incl. line breaks, "
        "all coefficient spellings incl. 17-digit decimals, fractions, negative and fractional exponents, non-ASCII variable "
        "letters) compiled into a generated crate and run; plus ungrammatical texts that tokenize, checked for a compile error at "
        "their own line. Non-trivial = an invocation whose text the model accepts and that is longer than 30 characters (so the "
        "printer reformats it) or a rejected text; distinct = distinct request lines")

# What C20 demands, and therefore what K compares here:
#  * macro value == runtime parser's value, bit for bit: decided by S in the harness (both values come from the SAME
#    build of the repository, string-compared);
#  * macro value vs the PARSER MODEL (this comparison): ties the model the theorems are about to the code.  Everything
#    structural is exact - accepted vs rejected, variable, vector length, term list, variable names, every exponent,
#    every coefficient that is a single literal / a single fraction / a sum of at most two like terms (every order of
#    summation gives the same bits there).  A coefficient that is the sum of THREE OR MORE like terms is compared up to the
#    rounding of that sum: the order in which the runtime parser adds like terms is its own business (C20 is about
#    macro == runtime parser, whatever the parser returns), so any order of the rounded additions of the correctly
#    rounded literals is accepted: |impl - exact sum| <= (n+1) 2^-52 sum |d_i|  (n literals; the C01Rounding bound) -
#    the rule of tools/props/c01.py `sum_close`, shared with C01 and C16.
#  * the request carries the SOURCE text; the model (lean/SV/Model/C20.lean `tokenText`) turns every white-space character of
#    the Rust tokenizer (Pattern_White_Space, U+200E / U+200F included) into a plain space before it parses, as the
#    tokenizer + token printer do for the macro.  Macro vs RUNTIME PARSER ON THE SAME SOURCE TEXT is S, in the harness.
#  * a rejected text: "a compile error at that invocation" - the statement does not name the error kind, so two errors
#    are equal whatever kind the diagnostic mentions (`compiled` vs `err` stays a disagreement).

def compare(req, impl, model):
    from __main__ import default_compare
    r = req.split()
    rest = " ".join(r[1:])
    if impl.startswith("err") and model.startswith("err"):
        return None                        # the statement says "a compile error", not which one
    if r[0] in ("m1", "bad1"):
        return _c01.compare("parse 0 " + rest, impl, model)     # incl. the like-term rule (c01.sum_close)
    return _c02.compare("parse 0 " + rest, impl, model)

def nontrivial(req, model):
    r = req.split()
    return r[0].startswith("bad") or (model.startswith("ok") and int(r[1]) > 30)

def tag(req, model):
    r = req.split(); m = model.split()
    n = int(r[1])
    size = "short" if n <= 30 else "medium" if n <= 150 else "long"
    return r[0] + ":" + size + ":" + (m[0] if m else "empty")
