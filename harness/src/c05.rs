//! C05 — `definite_integral` (Simpson 1/3 + 3/8 splice, trapezoid for one segment) and
//! `romberg_definite`, for both polynomial types.
//!
//!     simpson <poly> <a> <b> <n>           → ok f… | err FunctionError <Kind> | panic
//!     romberg <poly> <a> <b> <cap> <tol>   → ok f… | err MaxIterationsReached | err FunctionError <Kind> | panic
//!
//! The numeric oracle (exact rationals) lives in tools/props/c05.py; here only "never a panic".
//! `hardening_families` adds the inputs an absolute guard / a truncated counter / a name-bound shortcut needs
//! (narrow and tiny intervals, coefficient scales 2^-100..2^60, n up to 2^20, caps around 2^8..2^32, odd tolerances,
//! every representation of the polynomial).
use crate::c06::pow2;
use crate::polyio::*;
use crate::util::*;
use spindalis::integrals::{IntegralError, definite_integral, romberg_definite};
use spindalis_core::polynomials::Term;
use spindalis_core::polynomials::structs::{IntermediatePolynomial, SimplePolynomial};

fn show(r: Option<Result<f64, IntegralError>>) -> Obs {
    match r {
        None => Obs::with("panic".into(), Err("the integrator panicked".into())),
        Some(Ok(v)) => Obs::plain(format!("ok {}", fbits(v))),
        Some(Err(IntegralError::MaxIterationsReached)) => Obs::plain("err MaxIterationsReached".into()),
        Some(Err(IntegralError::FunctionError(e))) => Obs::plain(format!("err FunctionError {}", err_kind(&e))),
    }
}

pub fn run(line: &str) -> Obs {
    let mut t = Toks::new(line);
    match t.tok() {
        "simpson" => {
            let p = read_any(&mut t);
            let a = t.f64();
            let b = t.f64();
            let n = t.usize();
            show(catch(|| with_poly!(&p, q => definite_integral(q, a, b, n))))
        }
        "romberg" => {
            let p = read_any(&mut t);
            let a = t.f64();
            let b = t.f64();
            let cap: u32 = t.tok().parse().expect("u32 cap");
            let tol = t.f64();
            show(catch(|| with_poly!(&p, q => romberg_definite(q, a, b, cap, tol))))
        }
        other => panic!("unknown C05 request {other}"),
    }
}

/// coefficients of a polynomial of exactly the given degree: small dyadic rationals
fn coeffs(rng: &mut Rng, deg: usize) -> Vec<f64> {
    let mut cs: Vec<f64> = (0..=deg)
        .map(|_| if rng.chance(1, 6) { 0.0 } else { rng.dyadic(24, 3) })
        .collect();
    while cs[deg] == 0.0 {
        cs[deg] = rng.dyadic(24, 3);
    }
    cs
}

fn interval(rng: &mut Rng, kind: u64) -> (f64, f64) {
    match kind {
        // dyadic, a < b — one in five of them of an extreme width (2^-70..2^-34 or 2^8..2^16): a guard or tolerance
        // in absolute units shows only there
        0 => {
            let a = rng.range(-32, 24) as f64 / 8.0;
            let w = rng.range(1, 40) as f64 / 8.0;
            match rng.below(10) {
                0 => {
                    let a0 = if rng.chance(1, 2) { 0.0 } else { a / 64.0 };
                    let w0 = 2f64.powi(-(rng.range(34, 70) as i32));
                    if rng.chance(1, 2) { (a0, a0 + w0) } else { (a0 + w0, a0) }
                }
                1 => (a, a + w * 2f64.powi(rng.range(8, 16) as i32)),
                _ => (a, a + w),
            }
        }
        // reversed
        1 => {
            let a = rng.range(-32, 24) as f64 / 8.0;
            let w = rng.range(1, 40) as f64 / 8.0;
            (a + w, a)
        }
        // empty
        2 => {
            let a = if rng.chance(1, 2) { rng.range(-24, 24) as f64 / 8.0 } else { rng.uniform(-3.0, 3.0) };
            (a, a)
        }
        // symmetric about 0 (odd polynomials integrate to 0)
        3 => {
            let c = rng.range(1, 24) as f64 / 8.0;
            if rng.chance(1, 4) { (c, -c) } else { (-c, c) }
        }
        // decimal end points (segment width and abscissae are rounded)
        4 => {
            let a = rng.range(-30, 20) as f64 / 10.0;
            let w = rng.range(1, 37) as f64 / 10.0;
            if rng.chance(1, 5) { (a + w, a) } else { (a, a + w) }
        }
        // arbitrary doubles
        _ => {
            let a = rng.uniform(-3.0, 3.0);
            let b = rng.uniform(-3.0, 3.0);
            (a, b)
        }
    }
}

fn repr(rng: &mut Rng, cs: &[f64], which: u64) -> AnyPoly {
    match which % 2 {
        0 => simple_of(cs),
        _ => inter_of(cs, rng.chance(1, 5)),
    }
}

/// intermediate polynomials whose evaluation fails: the error must come back as `FunctionError`
fn bad_polys() -> Vec<AnyPoly> {
    let t = |c: f64, vs: &[(&str, f64)]| Term {
        coefficient: c,
        variables: vs.iter().map(|(v, e)| (v.to_string(), *e)).collect(),
    };
    vec![
        // two variables
        AnyPoly::I(IntermediatePolynomial {
            terms: vec![t(1.0, &[("x", 2.0)]), t(2.0, &[("y", 1.0)])],
            variables: vec!["x".into(), "y".into()],
        }),
        // a term uses a variable the polynomial does not declare
        AnyPoly::I(IntermediatePolynomial { terms: vec![t(1.0, &[("x", 1.0)])], variables: vec![] }),
        // declared x, used y (only in the second term)
        AnyPoly::I(IntermediatePolynomial {
            terms: vec![t(3.0, &[("x", 1.0)]), t(1.0, &[("y", 2.0)])],
            variables: vec!["x".into()],
        }),
    ]
}

pub const TOLS: [f64; 9] = [-1.0, 0.0, 1e-12, 1e-9, 1e-6, 1e-3, 0.1, 1.0, 10.0];

pub fn generate(seed: u64, thorough: bool, emit: &mut dyn FnMut(String)) {
    let mut rng = Rng::new(seed ^ 0xC05);
    let simpson = |p: &AnyPoly, a: f64, b: f64, n: usize| format!("simpson {} {} {} {n}", req_any(p), rbits(a), rbits(b));
    let romberg = |p: &AnyPoly, a: f64, b: f64, cap: u64, tol: f64| {
        format!("romberg {} {} {} {cap} {}", req_any(p), rbits(a), rbits(b), rbits(tol))
    };

    // ---- Simpson / trapezoid
    // the named segment counts on every degree, both representations, four interval kinds
    for n in [1usize, 2, 3, 5, 4, 7] {
        for deg in 0..=8usize {
            for which in 0..2u64 {
                for kind in [0u64, 1, 2, 4] {
                    let cs = coeffs(&mut rng, deg);
                    let (a, b) = interval(&mut rng, kind);
                    emit(simpson(&repr(&mut rng, &cs, which), a, b, n));
                }
            }
        }
    }
    // every n in 1..=200
    let per_n = if thorough { 400 } else { 10 };
    for n in 1..=200usize {
        for r in 0..per_n {
            // half of the cases of degree <= 3 (exactness clause), the rest 4..8 (error bound)
            let deg = if r % 2 == 0 { rng.below(4) as usize } else { 4 + rng.below(5) as usize };
            let cs = coeffs(&mut rng, deg);
            let kind = rng.below(6);
            let (a, b) = interval(&mut rng, kind);
            let which = rng.below(2);
            emit(simpson(&repr(&mut rng, &cs, which), a, b, n));
        }
    }
    // n = 0 lies outside the property; model and code must still agree on it
    for deg in [0usize, 2, 5] {
        let cs = coeffs(&mut rng, deg);
        let (a, b) = interval(&mut rng, 0);
        emit(simpson(&simple_of(&cs), a, b, 0));
    }
    for (i, p) in bad_polys().iter().enumerate() {
        for n in [1usize, 2, 3, 6, 9] {
            emit(simpson(p, -1.0, 0.5 + i as f64, n));
        }
    }

    // ---- Romberg: every cap 0..=64 x every tolerance
    let fixed: Vec<(Vec<f64>, f64, f64)> = vec![
        (vec![0.0, 0.0, 0.0, 1.0], -1.0, 1.0),      // x^3 over [-1,1]: integral 0, never converges (D11)
        (vec![0.0, 1.0], -2.0, 2.0),                // x over [-2,2]
        (vec![1.0, 0.0, 0.0, 0.0, 0.0, 0.0, 1.0], 0.0, 1.5), // slow to converge
    ];
    let per_cell = if thorough { 60 } else { 4 };
    for cap in 0..=64u64 {
        for tol in TOLS {
            let (cs, a, b) = &fixed[(cap as usize + (tol.to_bits() >> 52) as usize) % fixed.len()];
            emit(romberg(&repr(&mut rng, cs, cap), *a, *b, cap, tol));
            for r in 0..per_cell {
                let deg = if r % 2 == 0 { rng.below(4) as usize } else { rng.below(9) as usize };
                let cs = coeffs(&mut rng, deg);
                let kind = rng.below(6);
                let (a, b) = interval(&mut rng, kind);
                let which = rng.below(2);
                emit(romberg(&repr(&mut rng, &cs, which), a, b, cap, tol));
            }
        }
    }
    // the fixed zero-integral inputs on every cap with the tolerance that never stops
    for cap in 0..=64u64 {
        for (cs, a, b) in &fixed {
            emit(romberg(&simple_of(cs), *a, *b, cap, -1.0));
        }
    }
    // caps far beyond the table
    for cap in [100u64, 1000, 65536, u32::MAX as u64] {
        for tol in [-1.0, 0.0, 1e-6] {
            for (cs, a, b) in &fixed {
                emit(romberg(&simple_of(cs), *a, *b, cap, tol));
            }
            let cs = coeffs(&mut rng, 5);
            let (a, b) = interval(&mut rng, 0);
            emit(romberg(&inter_of(&cs, false), a, b, cap, tol));
        }
    }
    for p in bad_polys().iter() {
        for cap in [0u64, 3, 20] {
            emit(romberg(p, 0.0, 1.0, cap, 1e-6));
        }
    }
    hardening_families(seed, thorough, emit);
    range_edge_families(seed, thorough, emit);
    round4_families(seed, thorough, emit);
    round5_families(seed, thorough, emit);
    round6_families(seed, thorough, emit);
}

/// the same polynomial in every representation the integrators accept: dense / sparse, variables other than x,
/// no variable at all, zero coefficients kept or dropped
fn repr_any(rng: &mut Rng, cs: &[f64], which: u64) -> AnyPoly {
    match which % 5 {
        0 => simple_of(cs),
        1 => inter_of(cs, rng.chance(1, 5)),
        2 => AnyPoly::S(SimplePolynomial { coefficients: cs.to_vec(), variable: *rng.pick(&[Some('y'), Some('t'), Some('X'), None, Some('λ')]) }),
        _ => {
            let name = *rng.pick(&["y", "t", "X", "q", "Z"]);
            let keep = rng.chance(1, 4);
            let mut terms = Vec::new();
            for (k, c) in cs.iter().enumerate() {
                if *c == 0.0 && !keep {
                    continue;
                }
                let variables = if k == 0 { vec![] } else { vec![(name.to_string(), k as f64)] };
                terms.push(Term { coefficient: *c, variables });
            }
            let has_var = terms.iter().any(|t| !t.variables.is_empty());
            AnyPoly::I(IntermediatePolynomial { terms, variables: if has_var { vec![name.to_string()] } else { vec![] } })
        }
    }
}

/// coefficients of exactly the given degree, all multiplied by 2^shift
fn coeffs_scaled(rng: &mut Rng, deg: usize, shift: i32) -> Vec<f64> {
    coeffs(rng, deg).into_iter().map(|c| c * 2f64.powi(shift)).collect()
}

/// a narrow interval away from 0: a = m 2^e, b = a (1 + 2^-k), either order, either sign
fn narrow(rng: &mut Rng) -> (f64, f64) {
    let a = rng.range(1, 15) as f64 / 4.0 * 2f64.powi(rng.range(-20, 10) as i32);
    let b = a * (1.0 + 2f64.powi(-(rng.range(8, 46) as i32)));
    let s = if rng.chance(1, 3) { -1.0 } else { 1.0 };
    if rng.chance(1, 4) { (b * s, a * s) } else { (a * s, b * s) }
}

/// binary exponent of a coefficient scale: a third each of 2^-100..2^-60, 2^-60..1, 1..2^60 (an absolute guard at any
/// threshold down to 1e-30 has a fair chance of being crossed)
fn pick_shift(rng: &mut Rng) -> i32 {
    match rng.below(3) {
        0 => rng.range(-100, -60) as i32,
        1 => rng.range(-60, 0) as i32,
        _ => rng.range(0, 60) as i32,
    }
}

fn deg_class(rng: &mut Rng, r: usize) -> usize {
    if r % 2 == 0 { rng.below(4) as usize } else { 4 + rng.below(5) as usize }
}

pub fn hardening_families(seed: u64, thorough: bool, emit: &mut dyn FnMut(String)) {
    let mut rng = Rng::new(Rng::new(seed ^ 0xC05_0002).next());
    let mul = if thorough { 12 } else { 1 };
    let simpson = |p: &AnyPoly, a: f64, b: f64, n: usize| format!("simpson {} {} {} {n}", req_any(p), rbits(a), rbits(b));
    let romberg = |p: &AnyPoly, a: f64, b: f64, cap: u64, tol: f64| {
        format!("romberg {} {} {} {cap} {}", req_any(p), rbits(a), rbits(b), rbits(tol))
    };
    let ns: [usize; 16] = [1, 2, 3, 4, 5, 6, 7, 8, 9, 10, 11, 16, 33, 64, 199, 200];

    // ---- narrow intervals away from 0 (the integral is tiny in absolute terms, the abscissae are not)
    for r in 0..400 * mul {
        let deg = deg_class(&mut rng, r);
        let cs = coeffs(&mut rng, deg);
        let (a, b) = narrow(&mut rng);
        let n = if r % 3 == 0 { 1 + rng.below(200) as usize } else { *rng.pick(&ns) };
        let w = rng.below(5);
        emit(simpson(&repr_any(&mut rng, &cs, w), a, b, n));
    }
    for r in 0..150 * mul {
        let deg = if r % 3 == 2 { rng.below(9) as usize } else { rng.below(4) as usize };
        let cs = coeffs(&mut rng, deg);
        let (a, b) = narrow(&mut rng);
        let w = rng.below(5);
        let (cap, tol) = (2 + rng.below(10), *rng.pick(&TOLS));
        emit(romberg(&repr_any(&mut rng, &cs, w), a, b, cap, tol));
    }
    // ---- tiny intervals at 0 and next to it, both orders (absolute guards on the width)
    for r in 0..200 * mul {
        let deg = deg_class(&mut rng, r);
        let cs = coeffs(&mut rng, deg);
        let w0 = rng.range(1, 7) as f64 * 2f64.powi(-(rng.range(30, 90) as i32));
        let a0 = match rng.below(4) {
            0 => 0.0,
            1 => -0.0,
            2 => -w0 / 2.0,
            _ => rng.range(-8, 8) as f64 * 2f64.powi(-(rng.range(20, 60) as i32)),
        };
        let (a, b) = if rng.chance(1, 3) { (a0 + w0, a0) } else { (a0, a0 + w0) };
        let w = rng.below(5);
        if r % 4 == 3 {
            let (cap, tol) = (2 + rng.below(10), *rng.pick(&TOLS));
            emit(romberg(&repr_any(&mut rng, &cs, w), a, b, cap, tol));
        } else {
            let n = *rng.pick(&ns);
            emit(simpson(&repr_any(&mut rng, &cs, w), a, b, n));
        }
    }
    // ---- coefficients of every magnitude 2^-70..2^60 (a guard on |f| or on the sum in absolute units)
    for r in 0..300 * mul {
        let deg = deg_class(&mut rng, r);
        let shift = pick_shift(&mut rng);
        let cs = coeffs_scaled(&mut rng, deg, shift);
        let kind = rng.below(6);
        let (a, b) = interval(&mut rng, kind);
        let w = rng.below(5);
        if r % 4 == 3 {
            // generous tolerances: a value comes back after one or two passes
            let (cap, tol) = (2 + rng.below(10), *rng.pick(&[10.0, 100.0, f64::INFINITY, 1.0, 1e-6, 1e300]));
            emit(romberg(&repr_any(&mut rng, &cs, w), a, b, cap, tol));
        } else {
            let n = *rng.pick(&ns);
            emit(simpson(&repr_any(&mut rng, &cs, w), a, b, n));
        }
    }
    // ---- segment counts beyond 200: every count to 260, the powers of two and their neighbours
    let mut big: Vec<usize> = (201..=260).collect();
    big.extend_from_slice(&[511, 512, 513, 1000, 1023, 1024, 1025, 4095, 4096, 4097, 65535, 65536, 65537]);
    // n / 2 and n / 3 beyond 2^16 as well
    big.extend_from_slice(&[131071, 131072, 131073, 131074, 196608, 196611, 262144, 262147, 1 << 20]);
    if thorough {
        big.extend_from_slice(&[1_000_000, 1_000_001]);
    }
    for &n in &big {
        for r in 0..2 {
            let deg = deg_class(&mut rng, r);
            let cs = coeffs(&mut rng, deg);
            let kind = *rng.pick(&[0u64, 1, 3, 4]);
            let (a, b) = interval(&mut rng, kind);
            let w = rng.below(5);
            emit(simpson(&repr_any(&mut rng, &cs, w), a, b, n));
        }
    }
    // ---- degrees 9..12
    for deg in 9..=12usize {
        for &n in &ns {
            let cs = coeffs(&mut rng, deg);
            let kind = *rng.pick(&[0u64, 1, 3, 4, 5]);
            let (a, b) = interval(&mut rng, kind);
            let w = rng.below(5);
            emit(simpson(&repr_any(&mut rng, &cs, w), a, b, n));
        }
        let cs = coeffs(&mut rng, deg);
        emit(romberg(&simple_of(&cs), -1.0, 2.0, 20, 1e-9));
    }
    // ---- the zero polynomial in every shape; signed-zero bounds
    let zero_polys: Vec<AnyPoly> = vec![
        AnyPoly::S(SimplePolynomial { coefficients: vec![], variable: Some('x') }),
        AnyPoly::S(SimplePolynomial { coefficients: vec![], variable: None }),
        AnyPoly::S(SimplePolynomial { coefficients: vec![0.0], variable: Some('x') }),
        AnyPoly::S(SimplePolynomial { coefficients: vec![0.0, -0.0, 0.0, 0.0, 0.0], variable: Some('x') }),
        AnyPoly::I(IntermediatePolynomial { terms: vec![], variables: vec![] }),
        AnyPoly::I(IntermediatePolynomial { terms: vec![], variables: vec!["x".to_string()] }),
        AnyPoly::I(IntermediatePolynomial { terms: vec![Term { coefficient: 0.0, variables: vec![("x".to_string(), 3.0)] }], variables: vec!["x".to_string()] }),
    ];
    for p in &zero_polys {
        for n in [1usize, 2, 3, 4, 5, 8] {
            emit(simpson(p, -1.5, 2.0, n));
        }
        for cap in [0u64, 1, 2, 3, 9] {
            emit(romberg(p, -1.5, 2.0, cap, 1e-6));
            emit(romberg(p, -1.5, 2.0, cap, 0.0));
        }
    }
    for (a, b) in [(-0.0, 0.0), (0.0, -0.0), (-0.0, 1.0), (1.0, -0.0), (-0.0, -0.0)] {
        let cs = coeffs(&mut rng, 3);
        for n in [1usize, 2, 3, 5, 6] {
            emit(simpson(&simple_of(&cs), a, b, n));
        }
        emit(romberg(&inter_of(&cs, false), a, b, 6, 1e-6));
    }
    // ---- iteration caps around 2^8, 2^16, 2^31, 2^32 and tolerances outside the usual list
    for cap in [7u64, 8, 9, 10, 255, 256, 257, 65535, 65537, 2147483647, 2147483648, 2147483649, 4294967294] {
        for tol in [-1.0, 0.0, 1e-9, 1.0] {
            let deg = rng.below(7) as usize;
            let cs = coeffs(&mut rng, deg);
            let kind = *rng.pick(&[0u64, 1, 3, 4]);
            let (a, b) = interval(&mut rng, kind);
            let w = rng.below(5);
            emit(romberg(&repr_any(&mut rng, &cs, w), a, b, cap, tol));
        }
    }
    for tol in [f64::NAN, f64::INFINITY, f64::NEG_INFINITY, 5e-324, f64::EPSILON, 100.0, 1e300, -0.0] {
        for cap in [0u64, 1, 2, 3, 5, 8, 9, 30] {
            let deg = rng.below(7) as usize;
            let shift = if rng.chance(1, 2) { 0 } else { pick_shift(&mut rng) };
            let cs = coeffs_scaled(&mut rng, deg, shift);
            let kind = *rng.pick(&[0u64, 1, 2, 3, 4]);
            let (a, b) = interval(&mut rng, kind);
            let w = rng.below(5);
            emit(romberg(&repr_any(&mut rng, &cs, w), a, b, cap, tol));
        }
    }
    // ---- other representations on the ordinary families
    for r in 0..300 * mul {
        let deg = deg_class(&mut rng, r);
        let cs = coeffs(&mut rng, deg);
        let kind = rng.below(6);
        let (a, b) = interval(&mut rng, kind);
        let w = 2 + rng.below(3);
        if r % 3 == 2 {
            let (cap, tol) = (rng.below(12), *rng.pick(&TOLS));
            emit(romberg(&repr_any(&mut rng, &cs, w), a, b, cap, tol));
        } else {
            let n = 1 + rng.below(200) as usize;
            emit(simpson(&repr_any(&mut rng, &cs, w), a, b, n));
        }
    }
}

// ---------------------------------------------------------------- round-3 families: the edge of the number range

/// `sum |c_k| |x|^k`: an upper bound of |f| on [-|x|, |x|]
fn abs_bound(cs: &[f64], x: f64) -> f64 {
    cs.iter().enumerate().map(|(k, c)| c.abs() * x.abs().powi(k as i32)).sum()
}

/// the largest power of two by which the coefficients can be multiplied so that the textbook evaluation of the rule
/// stays below 2^1019 (weighted sample sums <= (3 n + 8) B0, their products with h and 3 h; for Romberg the trapezoid
/// sums <= 1024 B0 and the Richardson products <= 2^19 W B0) - the bound tools/props/c05.py `in_range` uses, with one
/// binade to spare
fn top_shift(cs: &[f64], a: f64, b: f64, n: usize, romberg: bool) -> Option<i32> {
    let x = a.abs().max(b.abs());
    let w = (b - a).abs();
    let b0 = abs_bound(cs, x);
    let q = if romberg { b0 * (1024f64).max(pow2(19) * w) } else { (3 * n + 8) as f64 * b0 * (1f64).max(3.0 * w / n.max(1) as f64) };
    let cmax = cs.iter().fold(0.0f64, |m, c| m.max(c.abs()));
    if !(q > 0.0 && q.is_finite() && cmax > 0.0) {
        return None;
    }
    Some((1018 - q.log2().ceil() as i32).min(1021 - cmax.log2().ceil() as i32))
}

/// the largest quantity the rule forms when evaluated literally at the nodes a + i h (absolute values throughout):
/// the term sums of the samples, the weighted sample sums of the 1/3 part and of the 3/8 panel, their products with h, 3 h
fn rule_magnitude(cs: &[f64], a: f64, b: f64, n: usize) -> Option<f64> {
    if n == 0 {
        return None;
    }
    let h = (b - a) / n as f64;
    let f = |x: f64| cs.iter().enumerate().map(|(k, c)| c * x.powi(k as i32)).sum::<f64>().abs();
    let fs: Vec<f64> = (0..=n).map(|i| f(a + i as f64 * h)).collect();
    let mut q = (0..=n).map(|i| abs_bound(cs, a + i as f64 * h)).fold(0.0f64, f64::max);
    if n == 1 {
        let s = fs[0] + fs[1];
        q = q.max(s).max(h.abs() * s);
    } else {
        let mut m = n;
        if n % 2 == 1 {
            let s8 = fs[n - 3] + 3.0 * fs[n - 2] + 3.0 * fs[n - 1] + fs[n];
            q = q.max(s8).max(3.0 * h.abs() * s8);
            m = n - 3;
        }
        if m >= 2 {
            let s13: f64 = fs[0] + fs[m] + (1..m).map(|i| if i % 2 == 1 { 4.0 * fs[i] } else { 2.0 * fs[i] }).sum::<f64>();
            q = q.max(s13).max(h.abs() * s13);
        }
    }
    if q > 0.0 && q.is_finite() { Some(q) } else { None }
}

pub fn range_edge_families(seed: u64, thorough: bool, emit: &mut dyn FnMut(String)) {
    let mut rng = Rng::new(Rng::new(seed ^ 0xC05_0003).next());
    let mul = if thorough { 12 } else { 1 };
    let simpson = |p: &AnyPoly, a: f64, b: f64, n: usize| format!("simpson {} {} {} {n}", req_any(p), rbits(a), rbits(b));
    let romberg = |p: &AnyPoly, a: f64, b: f64, cap: u64, tol: f64| {
        format!("romberg {} {} {} {cap} {}", req_any(p), rbits(a), rbits(b), rbits(tol))
    };
    let ns: [usize; 16] = [1, 2, 3, 4, 5, 6, 7, 8, 9, 10, 11, 16, 33, 64, 199, 200];
    let rtols = [10.0, 1.0, 1e-3, 1e-6, 1e-9, 0.0, 100.0];

    // ---- (A1) amplitudes within a few binades of f64::MAX: every sample, every partial sum of the rule, h * sum and
    //      the integral are finite, so the result must be finite and as accurate as anywhere else.  `sum * 3 * h / 8`
    //      for `3 h * sum / 8`, `(f0 + f2) + 4 f1` accumulated in another order with a scale factor, Horner instead of the
    //      term sum, `sum / (3 / h)` ... overflow here and nowhere else.
    for r in 0..320 * mul {
        let deg = deg_class(&mut rng, r);
        let cs = coeffs(&mut rng, deg);
        let kind = *rng.pick(&[0u64, 1, 3, 4, 5, 0, 4]);
        let (a, b) = if r % 5 == 4 { narrow(&mut rng) } else { interval(&mut rng, kind) };
        let n = if r % 3 == 0 { 1 + rng.below(200) as usize } else { *rng.pick(&ns) };
        let romb = r % 4 == 3;
        let Some(top) = top_shift(&cs, a, b, n, romb) else { continue };
        let shift = top - if rng.chance(2, 3) { rng.below(3) as i32 } else { rng.below(40) as i32 };
        let mut scaled: Vec<f64> = cs.iter().map(|c| c * pow2(shift)).collect();
        if !romb && r % 2 == 0 {
            // the last binade: the largest of the rule's own quantities (weighted absolute sample sums of the 1/3 part
            // and of the 3/8 panel, their products with h and 3 h, the term sums of the samples) at 0.55..0.97 of
            // 2^1023 - anything computed in another association (3 * sum, sum of both parts before * h, ...) that is
            // larger by a factor 1.5 is infinite
            if let Some(q) = rule_magnitude(&cs, a, b, n) {
                let amp = pow2(1000) * rng.uniform(0.55, 0.97) / q * pow2(23);
                let t: Vec<f64> = cs.iter().map(|c| c * amp).collect();
                if amp.is_finite() && t.iter().all(|c| c.is_finite()) {
                    scaled = t;
                }
            }
        }
        if scaled.iter().any(|c| !c.is_finite()) {
            continue;
        }
        let w = rng.below(5);
        if romb {
            emit(romberg(&repr_any(&mut rng, &scaled, w), a, b, 2 + rng.below(10), *rng.pick(&rtols)));
        } else {
            emit(simpson(&repr_any(&mut rng, &scaled, w), a, b, n));
        }
    }
    // ---- (A2) amplitudes at the bottom: coefficients 2^-990..2^-1080 (some of them subnormal or flushed to 0), results
    //      of size 2^-1000..2^-1074: judged against the exact integral with the ABSOLUTE underflow allowance only
    for r in 0..260 * mul {
        let deg = deg_class(&mut rng, r);
        let cs = coeffs(&mut rng, deg);
        let kind = *rng.pick(&[0u64, 1, 3, 4, 5]);
        let (a, b) = if r % 5 == 4 { narrow(&mut rng) } else { interval(&mut rng, kind) };
        let shift = -(rng.range(990, 1080) as i32);
        // (two steps: 2^-1080 is not a double)
        let scaled: Vec<f64> = cs.iter().map(|c| c * pow2(shift / 2) * pow2(shift - shift / 2)).collect();
        let w = rng.below(5);
        if r % 4 == 3 {
            emit(romberg(&repr_any(&mut rng, &scaled, w), a, b, 2 + rng.below(10), *rng.pick(&rtols)));
        } else {
            let n = if r % 3 == 0 { 1 + rng.below(200) as usize } else { *rng.pick(&ns) };
            emit(simpson(&repr_any(&mut rng, &scaled, w), a, b, n));
        }
    }
    // ---- (A3) TWO RARE THINGS AT ONCE: an interval whose width is a small multiple of 2^-1074 (or of 2^-1050) AND an
    //      amplitude of 2^900..2^1015: the integral is an ordinary number (2^-170..2^-40).  A width test against
    //      f64::MIN_POSITIVE / EPSILON, `1 / h`, `n / (b - a)` (infinite for a subnormal width) show only here.
    for r in 0..200 * mul {
        let deg = if r % 2 == 0 { rng.below(2) as usize } else { rng.below(5) as usize };
        let cs = coeffs(&mut rng, deg);
        let unit = if r % 3 == 0 { pow2(-(rng.range(1030, 1070) as i32)) } else { f64::from_bits(1) };
        let a0 = rng.range(-60, 60) as f64 * unit;
        let width = match rng.below(4) {
            0 => rng.range(1, 8) as f64,
            1 => pow2(rng.range(1, 12) as i32),
            _ => rng.range(1, 3000) as f64,
        } * unit;
        let (a, b) = if rng.chance(1, 4) { (a0 + width, a0) } else { (a0, a0 + width) };
        let n = *rng.pick(&ns);
        let romb = r % 5 == 4;
        let Some(top) = top_shift(&cs, a, b, n, romb) else { continue };
        let shift = top.min(1015) - rng.below(110) as i32;
        let scaled: Vec<f64> = cs.iter().map(|c| c * pow2(shift)).collect();
        if scaled.iter().any(|c| !c.is_finite()) {
            continue;
        }
        let w = rng.below(5);
        if romb {
            emit(romberg(&repr_any(&mut rng, &scaled, w), a, b, 2 + rng.below(8), *rng.pick(&rtols)));
        } else {
            emit(simpson(&repr_any(&mut rng, &scaled, w), a, b, n));
        }
    }
    // ---- (A4) abscissae within a few binades of MAX^(1/deg): f(x) = 2^t q(x / 2^e) with e up to 1000/deg (1019 for a
    //      constant), intervals narrow (relative width 2^-1..2^-50: TWO RARE THINGS, far out and narrow) or wide (across
    //      0); t at the top of the range or anywhere below.  x^deg is finite, x^(deg+1) is not: a dense evaluation one
    //      slot too far, Horner with a scaled accumulator, (b - a) recomputed from rounded nodes show here.
    for r in 0..300 * mul {
        let deg = match r % 4 {
            0 => rng.below(2) as usize,
            1 => 2 + rng.below(2) as usize,
            _ => rng.below(9) as usize,
        };
        let emax = if deg == 0 { 1019 } else { (1000 / deg as i32).min(1019) };
        let e = if rng.chance(2, 3) { emax - rng.below(12) as i32 } else { rng.range(60, emax as i64) as i32 };
        let q = coeffs(&mut rng, deg);
        let m = rng.range(8, 15) as f64 / 8.0 * if rng.chance(1, 3) { -1.0 } else { 1.0 };
        let a = m * pow2(e);
        let b = match rng.below(5) {
            0 => -a * rng.range(4, 12) as f64 / 8.0,
            1 => a * 0.5,
            _ => a * (1.0 + pow2(-(rng.range(1, 50) as i32)) * if rng.chance(1, 2) { 1.0 } else { -1.0 }),
        };
        let (a, b) = if rng.chance(1, 4) { (b, a) } else { (a, b) };
        // coefficients of q(x / 2^e): q_k 2^(-k e), built in two exact steps
        let base: Vec<f64> = q.iter().enumerate().map(|(k, c)| {
            let s = -(k as i32) * e;
            c * pow2(s / 2) * pow2(s - s / 2)
        }).collect();
        let n = if r % 3 == 0 { 1 + rng.below(200) as usize } else { *rng.pick(&ns) };
        let romb = r % 5 == 4;
        let Some(top) = top_shift(&base, a, b, n, romb) else { continue };
        let shift = top - if rng.chance(1, 2) { rng.below(4) as i32 } else { rng.below(1000) as i32 };
        let scaled: Vec<f64> = base.iter().map(|c| {
            let half = shift / 2;
            c * pow2(half) * pow2(shift - half)
        }).collect();
        if scaled.iter().any(|c| !c.is_finite()) {
            continue;
        }
        // (the dense form must not carry slots beyond the degree: x^(deg+1) may be infinite, and 0 * inf is NaN)
        let w = rng.below(5);
        if romb {
            emit(romberg(&repr_any(&mut rng, &scaled, w), a, b, 2 + rng.below(8), *rng.pick(&rtols)));
        } else {
            emit(simpson(&repr_any(&mut rng, &scaled, w), a, b, n));
        }
    }
    // ---- (A5) intervals wider than f64::MAX (b - a is not a number: outside what the rule can express; model and
    //      implementation must still agree, and nothing may panic) and abscissae inside the subnormal range
    for r in 0..24 * mul {
        let (d5, s5) = (rng.below(2) as usize, -(rng.range(1000, 1030) as i32));
        let cs = coeffs_scaled(&mut rng, d5, s5);
        let a = -rng.uniform(1.0, 1.99) * pow2(1023);
        let b = rng.uniform(1.0, 1.99) * pow2(1023);
        let (a, b) = if r % 3 == 0 { (b, a) } else { (a, b) };
        if r % 4 == 3 {
            emit(romberg(&repr_any(&mut rng, &cs, r as u64), a, b, 2 + rng.below(8), 1e-6));
        } else {
            emit(simpson(&repr_any(&mut rng, &cs, r as u64), a, b, *rng.pick(&ns)));
        }
    }
    for r in 0..60 * mul {
        let deg = deg_class(&mut rng, r);
        let cs = coeffs(&mut rng, deg);
        let unit = f64::from_bits(1);
        let a = rng.range(-3000, 3000) as f64 * unit;
        let b = a + rng.range(0, 6000) as f64 * unit * if rng.chance(1, 4) { -1.0 } else { 1.0 };
        let w = rng.below(5);
        if r % 4 == 3 {
            emit(romberg(&repr_any(&mut rng, &cs, w), a, b, 2 + rng.below(8), *rng.pick(&rtols)));
        } else {
            emit(simpson(&repr_any(&mut rng, &cs, w), a, b, *rng.pick(&ns)));
        }
    }
}

// ---------------------------------------------------------------- round-4 families: the top binades, repeated sample values

pub fn round4_families(seed: u64, thorough: bool, emit: &mut dyn FnMut(String)) {
    let mut rng = Rng::new(Rng::new(seed ^ 0xC05_0004).next());
    let mul = if thorough { 12 } else { 1 };
    let simpson = |p: &AnyPoly, a: f64, b: f64, n: usize| format!("simpson {} {} {} {n}", req_any(p), rbits(a), rbits(b));
    let romberg = |p: &AnyPoly, a: f64, b: f64, cap: u64, tol: f64| {
        format!("romberg {} {} {} {cap} {}", req_any(p), rbits(a), rbits(b), rbits(tol))
    };
    let ns: [usize; 18] = [1, 2, 2, 3, 4, 4, 5, 6, 7, 8, 9, 10, 11, 16, 23, 40, 64, 200];

    // ---- (A6) ABSCISSAE IN THE TOP BINADES: both ends of the interval between 2^1015 and f64::MAX (half of them beyond
    //      2^1023), same sign or across 0, narrow (relative width 2^-1..2^-50) or wide; degree 0 and 1 with a slope of
    //      2^-1030..2^-1010, so that f is of ordinary size (or, one time in four, a few binades under the top).  Every node,
    //      every sample, every weighted sum, h, 3 h and the integral are finite: the result must be finite and exact to
    //      rounding (tools/props/c05.py `in_range_exact` judges abscissae up to 2^1024 - 2^990).  A node formed as the
    //      mean of its neighbours `(left + xi) / 2`, as `a + (b - a) * i / n`, a midpoint `(a + b) / 2`, `b * b - a * a`
    //      for a linear integrand ... overflow here although nothing in the rule does.
    for r in 0..400 * mul {
        let ex = match r % 4 {
            0 | 1 => 1023,
            2 => 1022,
            _ => rng.range(1015, 1021) as i32,
        };
        let m = match rng.below(4) {
            0 => 1.0,
            1 => rng.range(8, 15) as f64 / 8.0,
            _ => rng.uniform(1.0, 1.999),
        };
        let sgn = if rng.chance(1, 3) { -1.0 } else { 1.0 };
        let a = sgn * m * pow2(ex);
        let mut b = match rng.below(8) {
            7 => a * rng.uniform(0.02, 0.5),
            0 | 1 | 2 => {
                let d = pow2(-(rng.range(1, 50) as i32));
                let up = a * (1.0 + d);
                if up.is_finite() && up.abs() <= 1.99 * pow2(1023) && rng.chance(1, 2) { up } else { a * (1.0 - d) }
            }
            3 => a * rng.uniform(0.5, 0.999),
            4 => {
                let up = a * rng.uniform(1.001, 1.9);
                if up.is_finite() && up.abs() <= 1.99 * pow2(1023) { up } else { a * 0.75 }
            }
            5 => a / 2.0,
            _ => -a * pow2(-(rng.range(1, 6) as i32)),
        };
        if b == a {
            b = a / 2.0;
        }
        let (a, b) = if rng.chance(1, 4) { (b, a) } else { (a, b) };
        let x = a.abs().max(b.abs());
        let xe = x.log2().floor() as i32; // 2^xe <= X < 2^(xe+1)
        let deg = if r % 6 == 5 { 0 } else { 1 };
        // f(x) = s (x / 2^xe) + c0 at unit scale, then lifted by 2^j
        let slope = *rng.pick(&[1.0, -1.0, 0.5, 1.5, -0.75, 2.0, 0.125, -3.0]);
        let mid = a / 2.0 + b / 2.0;
        let c0 = match rng.below(5) {
            0 => 0.0,
            1 => -1.0,
            2 => -slope * (mid * pow2(-xe)), // f vanishes near the middle of the interval
            3 => rng.dyadic(24, 3),
            _ => rng.range(-3, 3) as f64,
        };
        let n = if r % 3 == 0 { 1 + rng.below(200) as usize } else { *rng.pick(&ns) };
        let romb = r % 9 == 8;
        let base: Vec<f64> = if deg == 0 { vec![if c0 == 0.0 { 1.0 } else { c0 }] } else { vec![c0, slope * pow2(-xe)] };
        let lift = if r % 4 == 3 {
            // a few binades under the top
            match top_shift(&base, a, b, n, romb) {
                Some(t) => (t - rng.below(6) as i32).max(0).min(1000),
                None => 0,
            }
        } else {
            -(rng.range(-3, 12) as i32)
        };
        let scaled: Vec<f64> = base.iter().map(|c| c * pow2(lift)).collect();
        if scaled.iter().any(|c| !c.is_finite()) || (deg == 1 && scaled[1] == 0.0) {
            continue;
        }
        // (the dense form must not carry slots beyond the degree: x^2 is infinite here, and 0 * inf is NaN; an explicit
        // zero SLOPE is fine: x itself is finite)
        let cs = if deg == 0 && rng.chance(1, 3) { vec![scaled[0], 0.0] } else { scaled };
        let w = rng.below(5);
        if romb {
            emit(romberg(&repr_any(&mut rng, &cs, w), a, b, 2 + rng.below(8), *rng.pick(&[10.0, 1.0, 1e-3, 1e-6, 1e-9])));
        } else {
            emit(simpson(&repr_any(&mut rng, &cs, w), a, b, n));
        }
    }

    // ---- (I1) REPEATED SAMPLE VALUES: f(a) = f(b), f equal at every node of the rule, f equal at the ends and the middle,
    //      although f is not constant: p = c + q(x) prod (x - x_i) over chosen nodes x_i of the rule.  A "the integrand is
    //      constant" / "nothing changed since the last sample" decision made by comparing VALUES shows here.
    for r in 0..240 * mul {
        let n = *rng.pick(&[1usize, 2, 2, 3, 4, 4, 5, 6, 7, 8, 10, 16]);
        let a = rng.range(-16, 12) as f64 / 4.0;
        let h = *rng.pick(&[0.25, 0.5, 1.0, 0.125, 2.0]);
        let b = a + h * n as f64;
        let (a, b) = if rng.chance(1, 6) { (b, a) } else { (a, b) };
        let hh = (b - a) / n as f64;
        let nodes: Vec<f64> = match rng.below(6) {
            4 => vec![a, a + hh, b],                                      // the first two nodes and the end
            5 => vec![a, b - hh, b],                                      // the start and the last two nodes
            0 => vec![a, b],                                              // equal at the ends
            1 => vec![a, b, a / 2.0 + b / 2.0],                           // ends and middle
            2 => (0..=n.min(6)).map(|i| a + hh * i as f64).collect(),     // every node (n <= 6), or the first seven
            _ => vec![a, a + hh],                                         // the first two nodes
        };
        let c = rng.range(-3, 3) as f64;
        let mut cs = expand_small(*rng.pick(&[1.0, -1.0, 0.5, 2.0]), &nodes);
        if cs.len() <= 7 && rng.chance(1, 2) {
            // times (x - s) or (x^2 + 1)
            if rng.chance(1, 2) {
                cs = expand_small_times(&cs, rng.range(-2, 2) as f64);
            } else {
                let mut next = vec![0.0; cs.len() + 2];
                for (k, v) in cs.iter().enumerate() {
                    next[k + 2] += *v;
                    next[k] += *v;
                }
                cs = next;
            }
        }
        cs[0] += c;
        if cs.iter().any(|v| !v.is_finite()) {
            continue;
        }
        let w = rng.below(5);
        if r % 4 == 3 {
            emit(romberg(&repr_any(&mut rng, &cs, w), a, b, 2 + rng.below(8), *rng.pick(&[10.0, 1.0, 1e-3, 1e-6, 1e-9, 0.0])));
        } else {
            emit(simpson(&repr_any(&mut rng, &cs, w), a, b, n));
        }
    }
}

// ---------------------------------------------------------------- round-5 families: endpoints that are roots of a derivative
/// (N1) THE INTERVAL ENDS ARE EXACT ROOTS OF A DERIVATIVE OF THE INTEGRAND (category N: a parameter that equals a computed
/// value).  f^(k) = c (x - a)(x - b) q(x) (or with a double root at one end, or with the midpoint as a third root, or
/// vanishing at one end and the midpoint only) with
/// small integer q, integrated k times with every coefficient scaled by the common denominator so that all of them stay
/// small integers / dyadic rationals: f^(k)(a) and f^(k)(b) evaluate to exactly 0.0 in binary64 although f^(k) is not the
/// zero polynomial.  k = 4 (the derivative of Simpson's error term: degree 6..8) in more than half of the cases, k = 1, 2, 3,
/// 5, 6 in the rest; lower-order terms arbitrary; n = 3..200; every representation.  A "the integrand is of low degree /
/// flat / linear at the ends" decision made by sampling a derivative at the ends shows here; the error-bound clause of the
/// oracle (exact rationals) judges every case.
pub fn round5_families(seed: u64, thorough: bool, emit: &mut dyn FnMut(String)) {
    let mut rng = Rng::new(seed ^ 0xC05_5EED_5);
    let mul = if thorough { 10 } else { 1 };
    let simpson = |p: &AnyPoly, a: f64, b: f64, n: usize| format!("simpson {} {} {} {n}", req_any(p), rbits(a), rbits(b));
    let romberg = |p: &AnyPoly, a: f64, b: f64, cap: u64, tol: f64| {
        format!("romberg {} {} {} {cap} {}", req_any(p), rbits(a), rbits(b), rbits(tol))
    };
    fn gcd(a: u64, b: u64) -> u64 {
        if b == 0 { a } else { gcd(b, a % b) }
    }
    for r in 0..260 * mul {
        let k: usize = if r % 5 < 3 { 4 } else { *rng.pick(&[1usize, 2, 3, 5, 6, 4]) };
        let a = rng.range(-6, 6) as f64 / 2.0;
        let w = *rng.pick(&[0.5, 1.0, 1.0, 1.5, 2.0, 2.0, 3.0, 4.0]);
        let b = a + w;
        let (a, b) = if rng.chance(1, 5) { (b, a) } else { (a, b) };
        // the roots of the k-th derivative
        let roots: Vec<f64> = match rng.below(10) {
            0 => vec![a, a, b],
            1 => vec![a, b, b],
            2 => vec![a, b, a / 2.0 + b / 2.0],
            // one end and the midpoint
            8 => vec![a, a / 2.0 + b / 2.0],
            9 => vec![a / 2.0 + b / 2.0, b],
            _ => vec![a, b],
        };
        let c = *rng.pick(&[1.0, -1.0, 2.0, 3.0, -2.0, 0.5]);
        let mut g = expand_small(c, &roots);
        // times q(x) of small integer coefficients while the degree of f stays <= 8
        let room = 8usize.saturating_sub(k + g.len() - 1);
        let dq = if room == 0 { 0 } else { rng.below(room as u64 + 1) as usize };
        if dq > 0 {
            let q: Vec<f64> = (0..=dq).map(|j| if j == dq { *rng.pick(&[1.0, -1.0, 2.0]) } else { rng.range(-3, 3) as f64 }).collect();
            let mut next = vec![0.0; g.len() + dq];
            for (i, gi) in g.iter().enumerate() {
                for (j, qj) in q.iter().enumerate() {
                    next[i + j] += gi * qj;
                }
            }
            g = next;
        }
        if g.len() + k > 9 {
            continue;
        }
        // integrate k times: x^j -> x^(j+k) j!/(j+k)!, everything multiplied by the least common multiple of the divisors
        let den: Vec<u64> = (0..g.len()).map(|j| ((j + 1)..=(j + k)).map(|t| t as u64).product()).collect();
        let l = den.iter().fold(1u64, |acc, d| acc / gcd(acc, *d) * *d);
        let mut cs = vec![0.0; g.len() + k];
        for (j, gj) in g.iter().enumerate() {
            cs[j + k] = gj * (l / den[j]) as f64;
        }
        // a common power of two (exact), the lower-order terms arbitrary
        let sc = 2f64.powi(rng.range(-12, 2) as i32);
        for v in cs.iter_mut() {
            *v *= sc;
        }
        for v in cs.iter_mut().take(k) {
            *v = if rng.chance(1, 3) { 0.0 } else { rng.dyadic(24, 3) };
        }
        // the generator's own check: the k-th derivative (formed the way a program would: coefficient times falling
        // factorial, Horner) is exactly 0.0 at both ends and not identically zero
        let dk: Vec<f64> = (k..cs.len()).map(|e| cs[e] * ((e - k + 1)..=e).map(|t| t as f64).product::<f64>()).collect();
        let at = |x: f64| dk.iter().rev().fold(0.0, |acc, v| acc * x + v);
        if roots.iter().any(|x| at(*x) != 0.0) || dk.iter().all(|v| *v == 0.0) || cs.iter().any(|v| !v.is_finite()) {
            continue;
        }
        let n = match rng.below(3) {
            0 => *rng.pick(&[3usize, 4, 5, 6, 7, 8, 9, 10, 12, 16]),
            _ => rng.range(3, 200) as usize,
        };
        let wch = rng.below(5);
        if r % 13 == 12 {
            emit(romberg(&repr_any(&mut rng, &cs, wch), a, b, 2 + rng.below(8), *rng.pick(&[1.0, 1e-3, 1e-6, 1e-9, 0.0])));
        } else {
            emit(simpson(&repr_any(&mut rng, &cs, wch), a, b, n));
        }
    }
    // the plain textbook instances: x^6 - 3x^5 on [0,1] (fourth derivative 360 x (x - 1)), x^6 - 15x^4 on [-1,1] and
    // reversed (360 (x^2 - 1)), x^7 - 7x^5 (840 x (x^2 - 1)) on [-1,1], [0,1], [-1,0]
    for (cs, a, b) in [
        (vec![0.0, 0.0, 0.0, 0.0, 0.0, -3.0, 1.0], 0.0, 1.0),
        (vec![0.0, 0.0, 0.0, 0.0, -15.0, 0.0, 1.0], -1.0, 1.0),
        (vec![0.0, 0.0, 0.0, 0.0, -15.0, 0.0, 1.0], 1.0, -1.0),
        (vec![1.0, 0.0, 0.0, 0.0, 0.0, -7.0, 0.0, 1.0], -1.0, 1.0),
        (vec![1.0, 0.0, 0.0, 0.0, 0.0, -7.0, 0.0, 1.0], 0.0, 1.0),
        (vec![0.0, 2.0, 0.0, 0.0, 0.0, -7.0, 0.0, 1.0], -1.0, 0.0),
    ] {
        for n in [3usize, 4, 6, 9, 50, 200] {
            if thorough || (n + seed as usize) % 2 == 0 {
                let wch = rng.below(5);
                emit(simpson(&repr_any(&mut rng, &cs, wch), a, b, n));
            }
        }
    }
}

/// coefficients (index = power) of `c prod (x - r)`
fn expand_small(c: f64, roots: &[f64]) -> Vec<f64> {
    let mut cs = vec![c];
    for r in roots {
        cs = expand_small_times(&cs, *r);
    }
    cs
}

fn expand_small_times(cs: &[f64], r: f64) -> Vec<f64> {
    let mut next = vec![0.0; cs.len() + 1];
    for (k, a) in cs.iter().enumerate() {
        next[k + 1] += *a;
        next[k] -= *a * r;
    }
    next
}

// ---------------------------------------------------------------- round-6 families (DESIGN.md section 17)
/// (O) BLOCK BOUNDARIES: the segment count at blk-1, blk, blk+1, blk+2, 2 blk+1 (and 3 more than those: the odd splice
///     removes three segments) for blk = 16 .. 1024, several integrands each: all coefficients non-zero, interval NOT
///     symmetric, degree 2/3 (exactness clause: a dropped, repeated or overwritten chunk of the node sum is an error of
///     the size of the integral itself) and 4..8 (the fourth-derivative bound is tiny at these n); the degree /
///     number of terms at 15..18, 31..34, 63..66 on intervals inside [-1, 1]; Romberg caps at the same values.
/// (P) RESONANT / EXACT RELATIONS: (P1) a Romberg TOLERANCE EXACTLY EQUAL to the relative change the rule computes at
///     iteration i (small-integer integrands on dyadic intervals: every sample and every trapezoid sum is exact, so the
///     emulation below reproduces the figure bit for bit), the same one ulp above / below and 2^-40 off, with the cap at
///     i, i+1, i+2, 9, 64 ("<=" against "<", converged in the very pass that hits the cap); (P2) a segment width of
///     exactly 1, 2, 3, 1/2, 4 (multipliers h, h/3, 3h/8 that are exactly 1 or a power of two) at every n up to 40 and the
///     block values; (P3) integrals that are EXACTLY zero without the integrand being odd about 0 (odd about the
///     midpoint: the 3/8 panel cancels the 1/3 part exactly, the running sum returns to exactly 0 in the middle of the
///     loop) and the same missed by one ulp / by 2^-40 of an end point.
pub fn round6_families(seed: u64, thorough: bool, emit: &mut dyn FnMut(String)) {
    let mut rng = Rng::new(Rng::new(seed ^ 0xC05_0006).next());
    let mul = if thorough { 8 } else { 1 };
    let simpson = |p: &AnyPoly, a: f64, b: f64, n: usize| format!("simpson {} {} {} {n}", req_any(p), rbits(a), rbits(b));
    let romberg = |p: &AnyPoly, a: f64, b: f64, cap: u64, tol: f64| {
        format!("romberg {} {} {} {cap} {}", req_any(p), rbits(a), rbits(b), rbits(tol))
    };
    // all coefficients non-zero, not symmetric
    let full = |rng: &mut Rng, deg: usize| -> Vec<f64> {
        (0..=deg).map(|_| { let v = rng.range(1, 24) as f64 / 8.0; if rng.chance(1, 2) { -v } else { v } }).collect()
    };
    // ---- (O) segment counts
    let mut ns: Vec<usize> = Vec::new();
    for blk in [16usize, 32, 64, 128, 256, 512, 1024] {
        for n in [blk - 1, blk, blk + 1, blk + 2, 2 * blk + 1, blk + 3, blk + 4, blk + 5, 2 * blk + 4] {
            ns.push(n);
        }
    }
    for &n in &ns {
        for r in 0..4 * mul {
            let deg = match r % 4 { 0 => 3, 1 => 2, 2 => 4 + rng.below(2) as usize, _ => 6 + rng.below(3) as usize };
            let cs = full(&mut rng, deg);
            let a = rng.range(-12, 12) as f64 / 4.0;
            let w = rng.range(1, 24) as f64 / 4.0;
            let (a, b) = match rng.below(5) { 0 => (a + w, a), 1 => (a / 10.0, a / 10.0 + w / 10.0), _ => (a, a + w) };
            let which = rng.below(5);
            emit(simpson(&repr_any(&mut rng, &cs, which), a, b, n));
        }
    }
    // ---- (O) degree / number of terms (outside the statement's degrees: never-a-panic and the correspondence)
    for deg in [15usize, 16, 17, 18, 31, 32, 33, 34, 63, 64, 65, 66] {
        for &n in &[1usize, 2, 3, 5, 8, 17, 64] {
            let cs = full(&mut rng, deg);
            let (a, b) = *rng.pick(&[(-0.75, 1.0), (0.0, 1.0), (-1.0, 0.5), (0.25, 0.875), (1.0, -0.5)]);
            let which = rng.below(5);
            emit(simpson(&repr_any(&mut rng, &cs, which), a, b, n));
        }
        let cs = full(&mut rng, deg);
        emit(romberg(&repr_any(&mut rng, &cs, deg as u64), -0.5, 1.0, 2 + rng.below(8), *rng.pick(&[1.0, 1e-3, 1e-9])));
    }
    // ---- (O) Romberg caps at the block values
    for cap in [15u64, 16, 17, 18, 31, 32, 33, 34, 63, 64, 65, 66, 127, 128, 129, 130, 255, 256, 257, 258, 513, 1023, 1024, 1025, 1026, 2049] {
        for tol in [-1.0, 0.0, 1e-9, 1e-3, 1.0] {
            let deg = 1 + rng.below(7) as usize;
            let cs = full(&mut rng, deg);
            let a = rng.range(-8, 8) as f64 / 4.0;
            let which = rng.below(5);
            emit(romberg(&repr_any(&mut rng, &cs, which), a, a + rng.range(1, 12) as f64 / 4.0, cap, tol));
        }
    }
    // ---- (P1) tolerance exactly equal to the computed relative change
    let eval = |cs: &[f64], x: f64| -> f64 { cs.iter().enumerate().map(|(k, c)| c * x.powi(k as i32)).sum() };
    let trap = |cs: &[f64], a: f64, b: f64, n: usize| -> f64 {
        let h = (b - a) / n as f64;
        let mut xi = a;
        let mut sum = eval(cs, xi);
        for _ in 1..n {
            xi += h;
            sum += 2.0 * eval(cs, xi);
        }
        sum += eval(cs, b);
        h * sum / 2.0
    };
    for r in 0..40 * mul {
        let deg = 1 + (r % 6) as usize;
        // small integers; intervals of width 1, 2, 4 at integer / half-integer ends: every sample of the first five passes is exact
        let mut cs: Vec<f64> = (0..=deg).map(|_| rng.range(-6, 6) as f64).collect();
        if cs[deg] == 0.0 {
            cs[deg] = 1.0;
        }
        let a = rng.range(-4, 4) as f64 / 2.0;
        let w = *rng.pick(&[1.0, 2.0, 1.0, 4.0, 0.5]);
        let (a, b) = if rng.chance(1, 5) { (a + w, a) } else { (a, a + w) };
        let mut t = vec![vec![0.0f64; 10]; 10];
        t[1][1] = trap(&cs, a, b, 1);
        let mut errs: Vec<f64> = Vec::new();
        for iter in 1..=5usize {
            t[iter + 1][1] = trap(&cs, a, b, 1 << iter);
            for k in 2..=iter + 1 {
                let j = 2 + iter - k;
                let p = 4usize.pow(k as u32 - 1) as f64;
                t[j][k] = (p * t[j + 1][k - 1] - t[j][k - 1]) / (p - 1.0);
            }
            errs.push(((t[1][iter + 1] - t[2][iter]).abs() / t[1][iter + 1]).abs() * 100.0);
        }
        for (i0, e) in errs.iter().enumerate() {
            let i = i0 as u64 + 1;
            if !(e.is_finite() && *e > 0.0) {
                // exactly zero (or 0/0): the tolerances 0, -0 and the smallest number
                for tol in [0.0, -0.0, 5e-324] {
                    let which = rng.below(5);
                    emit(romberg(&repr_any(&mut rng, &cs, which), a, b, i + 1, tol));
                }
                continue;
            }
            let tols = [*e, f64::from_bits(e.to_bits() + 1), f64::from_bits(e.to_bits() - 1), e * (1.0 + 2f64.powi(-40)), e * (1.0 - 2f64.powi(-40))];
            for (ti, tol) in tols.iter().enumerate() {
                for cap in [i, i + 1, i + 2, 9, 64] {
                    if ti >= 3 && cap != i + 1 {
                        continue;
                    }
                    let which = if ti == 0 { rng.below(5) } else { rng.below(2) };
                    emit(romberg(&repr_any(&mut rng, &cs, which), a, b, cap, *tol));
                }
            }
        }
    }
    // ---- (P2) segment widths that are exactly 1, 2, 3, 1/2, 4, 8
    let mut pn: Vec<usize> = (1..=40).collect();
    pn.extend_from_slice(&[63, 64, 65, 66, 127, 128, 129, 130, 255, 256, 257, 258]);
    for &n in &pn {
        for &h in &[1.0, 3.0, 2.0, 0.5, 4.0, 8.0] {
            if n > 40 && h > 3.0 {
                continue;
            }
            let deg = if (n + h as usize) % 2 == 0 { 1 + rng.below(3) as usize } else { 4 + rng.below(3) as usize };
            // (higher degrees on long intervals: small leading coefficients keep the magnitudes ordinary)
            let mut cs = full(&mut rng, deg);
            let span = h * n as f64;
            for (k, c) in cs.iter_mut().enumerate() {
                *c *= 2f64.powi(-((k as f64 * span.log2().max(0.0)).ceil() as i32));
            }
            let a = if rng.chance(1, 2) { -(n as f64 / 2.0).floor() * h } else { rng.range(-3, 3) as f64 };
            let (a, b) = if rng.chance(1, 6) { (a + span, a) } else { (a, a + span) };
            let which = rng.below(5);
            emit(simpson(&repr_any(&mut rng, &cs, which), a, b, n));
        }
    }
    // ---- (P3) integrals that are exactly zero without symmetry about 0
    for r in 0..80 * mul {
        let n = *rng.pick(&[1usize, 2, 3, 4, 5, 6, 7, 8, 9, 10, 15, 16, 17, 33, 64, 65]);
        let a = rng.range(-8, 8) as f64 / 2.0;
        let w = *rng.pick(&[1.0, 2.0, 0.5, 3.0, 4.0]) * if r % 2 == 0 { n as f64 } else { 1.0 };
        let b = a + w;
        let m = a / 2.0 + b / 2.0;
        // q(x - m) with q odd: (x - m), (x - m)^3, 2 (x - m)^3 + 3 (x - m), (x - m)^5
        let mut cs = match r % 4 {
            0 => vec![-m, 1.0],
            1 => expand_small(1.0, &[m, m, m]),
            2 => {
                let mut c3 = expand_small(2.0, &[m, m, m]);
                c3[0] += -m * 3.0;
                c3[1] += 3.0;
                c3
            }
            _ => expand_small(1.0, &[m, m, m, m, m]),
        };
        let sc = *rng.pick(&[1.0, -1.0, 0.5, 4.0]);
        cs.iter_mut().for_each(|c| *c *= sc);
        if cs.iter().any(|c| !c.is_finite()) {
            continue;
        }
        let (a, b) = if rng.chance(1, 6) { (b, a) } else { (a, b) };
        for mode in 0..3u64 {
            // exact, and one end point moved by one ulp / by 2^-40 (the integral is then tiny, not zero)
            let bb = match mode { 0 => b, 1 => if b == 0.0 { 5e-324 } else { f64::from_bits(b.to_bits() + 1) }, _ => b * (1.0 + 2f64.powi(-40)) };
            let which = rng.below(5);
            emit(simpson(&repr_any(&mut rng, &cs, which), a, bb, n));
            if mode == 0 || r % 3 == 0 {
                let which = rng.below(5);
                emit(romberg(&repr_any(&mut rng, &cs, which), a, bb, 2 + rng.below(8), *rng.pick(&[1.0, 1e-6, 0.0, 100.0, f64::INFINITY])));
            }
        }
    }
}
