import SV.Model.C06
import SV.Lemmas.Poly
import Mathlib.Algebra.Order.Field.Basic
import Mathlib.Algebra.Order.AbsoluteValue.Basic
import Mathlib.Tactic.Linarith
import Mathlib.Tactic.NormNum
import Mathlib.Tactic.Ring
import Mathlib.Tactic.FieldSimp
/-!
Helper lemmas for C06 (bisection) over a linearly ordered field `K`:

* the scalar helpers of the model at `K` (`sabs = |·|`, the gate extracted from the source);
* `passK`: one loop pass for a total target function `g`, as a function on states, and
  `bisectPass_evOf`: the model's pass computes it;
* bracket containment for an arbitrary evaluation function (`bisectPass_bracket`, `bisectLoop_sound`);
* the strict sign change is kept and the width halves (`passK_spec`, `bisectLoop_keeps`);
* Lipschitz target functions: small inside a sign-changing bracket without the intermediate value
  theorem (`abs_le_of_sign_change`), hence `bisectLoop_complete` for brackets away from 0.
-/
set_option linter.unusedSectionVars false
set_option linter.unnecessarySeqFocus false

namespace SV.C06
open SV SV.Poly

variable {K : Type} [Field K] [LinearOrder K] [IsStrictOrderedRing K]

theorem sabs_eq_abs (x : K) : sabs x = |x| := by
  unfold sabs
  split_ifs with h
  · rw [abs_of_neg h]
  · rw [abs_of_nonneg (not_lt.mp h)]

theorem gate_pos : (0 : K) < gate := by
  simp [gate, ratLit, SV.Gen.bisectionGate]

theorem gate_le : (gate : K) ≤ 1 / 10 ^ 4 := by
  simp [gate, ratLit, SV.Gen.bisectionGate]
  norm_num

/-- the evaluation function of a total `g` -/
def evOf (g : K → K) : K → Except PErr K := fun x => .ok (g x)

/-- the error estimate after a pass with midpoint `m` -/
def nextErr (first : Bool) (m : K) (st : BState K) : K :=
  if first = false ∧ m ≠ 0 then |m - st.x| / m * 100 else st.aerr

/-- one pass for a total target function, as a plain function on states -/
def passK (g : K → K) (first : Bool) (st : BState K) : BState K :=
  let m := (st.lower + st.upper) / 2
  if g st.lower * g m < 0 then ⟨st.lower, m, m, nextErr first m st⟩
  else if 0 < g st.lower * g m then ⟨m, st.upper, m, nextErr first m st⟩
  else ⟨st.lower, st.upper, if g st.lower = 0 then st.lower else m, 0⟩

/-- over a field the sum is always "finite": the midpoint is `(l + u) / 2` -/
theorem midpoint_eq (l u : K) : midpoint l u = (l + u) / 2 := by
  simp [midpoint, finiteS]

/-- over an ordered field the sign test has the sign of the product -/
theorem signTest_neg (a b : K) : signTest a b < 0 ↔ a * b < 0 := by
  unfold signTest signumS
  rcases lt_trichotomy a 0 with h | h | h
  · have hne : a ≠ 0 := ne_of_lt h
    simp only [beq_iff_eq, hne, if_false, h, if_true, neg_one_mul, neg_lt_zero]
    constructor
    · intro hb; exact mul_neg_iff.mpr (Or.inr ⟨h, hb⟩)
    · intro hab
      rcases mul_neg_iff.mp hab with ⟨h1, _⟩ | ⟨_, h2⟩
      · exact absurd h1 (not_lt.mpr (le_of_lt h))
      · exact h2
  · subst h; simp
  · have hne : a ≠ 0 := ne_of_gt h
    simp only [beq_iff_eq, hne, if_false, not_lt_of_gt h, h, if_true, one_mul]
    constructor
    · intro hb; exact mul_neg_iff.mpr (Or.inl ⟨h, hb⟩)
    · intro hab
      rcases mul_neg_iff.mp hab with ⟨_, h2⟩ | ⟨h1, _⟩
      · exact h2
      · exact absurd h1 (not_lt.mpr (le_of_lt h))

theorem signTest_pos (a b : K) : 0 < signTest a b ↔ 0 < a * b := by
  unfold signTest signumS
  rcases lt_trichotomy a 0 with h | h | h
  · have hne : a ≠ 0 := ne_of_lt h
    simp only [beq_iff_eq, hne, if_false, h, if_true, neg_one_mul, neg_pos]
    constructor
    · intro hb; exact mul_pos_iff.mpr (Or.inr ⟨h, hb⟩)
    · intro hab
      rcases mul_pos_iff.mp hab with ⟨h1, _⟩ | ⟨_, h2⟩
      · exact absurd h1 (not_lt.mpr (le_of_lt h))
      · exact h2
  · subst h; simp
  · have hne : a ≠ 0 := ne_of_gt h
    simp only [beq_iff_eq, hne, if_false, not_lt_of_gt h, h, if_true, one_mul]
    constructor
    · intro hb; exact mul_pos_iff.mpr (Or.inl ⟨h, hb⟩)
    · intro hab
      rcases mul_pos_iff.mp hab with ⟨_, h2⟩ | ⟨h1, _⟩
      · exact h2
      · exact absurd h1 (not_lt.mpr (le_of_lt h))

theorem bisectPass_evOf (g : K → K) (first : Bool) (st : BState K) :
    bisectPass (evOf g) first st = .ok (passK g first st) := by
  unfold bisectPass evOf passK nextErr
  simp only [sabs_eq_abs, midpoint_eq, signTest_neg, signTest_pos, Bool.and_eq_true, Bool.not_eq_eq_eq_not,
    Bool.not_true, beq_eq_false_iff_ne, beq_iff_eq, ne_eq]
  split_ifs <;> rfl

theorem bisectPass_bracket {ev : K → Except PErr K} {first : Bool} {st st' : BState K}
    (h : bisectPass ev first st = .ok st') (hle : st.lower ≤ st.upper) :
    st.lower ≤ st'.lower ∧ st'.lower ≤ st'.x ∧ st'.x ≤ st'.upper ∧ st'.upper ≤ st.upper := by
  have hm1 : st.lower ≤ (st.lower + st.upper) / 2 := by linarith
  have hm2 : (st.lower + st.upper) / 2 ≤ st.upper := by linarith
  unfold bisectPass at h
  simp only [midpoint_eq] at h
  split at h
  · cases h
  · split at h
    · cases h
    · split_ifs at h <;> cases h <;> simp_all


theorem finish_out_ok {ev : K → Except PErr K} {st : BState K} {p : Nat} {x : K}
    (h : (finish ev st p).out = .ok x) : x = st.x ∧ ∃ y, ev x = .ok y ∧ |y| < gate := by
  unfold finish at h
  split at h
  · cases h
  · rename_i v hv
    split_ifs at h with hg
    · cases h
      exact ⟨rfl, v, hv, by rwa [sabs_eq_abs] at hg⟩

@[simp] theorem finish_passes (ev : K → Except PErr K) (st : BState K) (p : Nat) :
    (finish ev st p).passes = p := by
  unfold finish; split <;> [rfl; (split_ifs <;> rfl)]

@[simp] theorem finish_lower (ev : K → Except PErr K) (st : BState K) (p : Nat) :
    (finish ev st p).lower = st.lower := by
  unfold finish; split <;> [rfl; (split_ifs <;> rfl)]

@[simp] theorem finish_upper (ev : K → Except PErr K) (st : BState K) (p : Nat) :
    (finish ev st p).upper = st.upper := by
  unfold finish; split <;> [rfl; (split_ifs <;> rfl)]

theorem finish_no_panic (ev : K → Except PErr K) (st : BState K) (p : Nat) :
    (finish ev st p).out ≠ .panic := by
  unfold finish; split <;> [simp; (split_ifs <;> simp)]

theorem bisectLoop_sound (ev : K → Except PErr K) (tol : K) :
    ∀ (rem k : Nat) (st : BState K) (x : K), st.lower ≤ st.upper →
      (bisectLoop ev tol rem k st).out = .ok x →
      st.lower ≤ x ∧ x ≤ st.upper ∧ ∃ y, ev x = .ok y ∧ |y| < gate := by
  intro rem
  induction rem with
  | zero =>
    intro k st x _ h
    unfold bisectLoop at h
    split at h <;> cases h
  | succ rem ih =>
    intro k st x hle h
    unfold bisectLoop at h
    split at h
    · cases h
    · rename_i st' hp
      obtain ⟨h1, h2, h3, h4⟩ := bisectPass_bracket hp hle
      split_ifs at h
      · obtain ⟨hx, hy⟩ := finish_out_ok h
        subst hx
        exact ⟨le_trans h1 h2, le_trans h3 h4, hy⟩
      · obtain ⟨a, b, c⟩ := ih (k + 1) st' x (le_trans h2 h3) h
        exact ⟨le_trans h1 a, le_trans b h4, c⟩

theorem bisectLoop_passes (ev : K → Except PErr K) (tol : K) :
    ∀ (rem k : Nat) (st : BState K),
      k + 1 ≤ (bisectLoop ev tol rem k st).passes ∧ (bisectLoop ev tol rem k st).passes ≤ k + rem + 1 := by
  intro rem
  induction rem with
  | zero => intro k st; unfold bisectLoop; split <;> simp
  | succ rem ih =>
    intro k st
    unfold bisectLoop
    split
    · simp
    · split_ifs
      · simp
      · have := ih (k + 1) ‹_›
        omega

theorem bisectLoop_no_panic (ev : K → Except PErr K) (tol : K) :
    ∀ (rem k : Nat) (st : BState K), (bisectLoop ev tol rem k st).out ≠ .panic := by
  intro rem
  induction rem with
  | zero => intro k st; unfold bisectLoop; split <;> simp
  | succ rem ih =>
    intro k st
    unfold bisectLoop
    split
    · simp
    · split_ifs
      · exact finish_no_panic _ _ _
      · exact ih _ _


/-! ### the sign change is kept; the width halves -/

theorem bisectLoop_evOf_zero (g : K → K) (tol : K) (k : Nat) (st : BState K) :
    bisectLoop (evOf g) tol 0 k st =
      ⟨.err .maxIterationsReached, k + 1, (passK g (k == 0) st).lower, (passK g (k == 0) st).upper⟩ := by
  unfold bisectLoop; rw [bisectPass_evOf]

theorem bisectLoop_evOf_succ (g : K → K) (tol : K) (rem k : Nat) (st : BState K) :
    bisectLoop (evOf g) tol (rem + 1) k st =
      if |(passK g (k == 0) st).aerr| < tol then finish (evOf g) (passK g (k == 0) st) (k + 1)
      else bisectLoop (evOf g) tol rem (k + 1) (passK g (k == 0) st) := by
  conv_lhs => unfold bisectLoop
  rw [bisectPass_evOf]
  simp only [sabs_eq_abs]

/-- what one pass does to a bracket with a strict sign change -/
theorem passK_spec (g : K → K) (first : Bool) (st : BState K)
    (hs : g st.lower * g st.upper < 0) :
    g (passK g first st).lower * g (passK g first st).upper < 0 ∧
    (((passK g first st).x = (st.lower + st.upper) / 2 ∧
        ((passK g first st).lower = st.lower ∧ (passK g first st).upper = (st.lower + st.upper) / 2 ∨
         (passK g first st).lower = (st.lower + st.upper) / 2 ∧ (passK g first st).upper = st.upper) ∧
        (passK g first st).aerr = nextErr first ((st.lower + st.upper) / 2) st) ∨
     ((passK g first st).lower = st.lower ∧ (passK g first st).upper = st.upper ∧
        (passK g first st).aerr = 0 ∧ g (passK g first st).x = 0 ∧
        ((passK g first st).x = st.lower ∨ (passK g first st).x = (st.lower + st.upper) / 2) ∧
        g st.lower * g ((st.lower + st.upper) / 2) = 0)) := by
  unfold passK
  simp only
  by_cases h1 : g st.lower * g ((st.lower + st.upper) / 2) < 0
  · rw [if_pos h1]
    exact ⟨h1, Or.inl ⟨rfl, Or.inl ⟨rfl, rfl⟩, rfl⟩⟩
  · rw [if_neg h1]
    by_cases h2 : 0 < g st.lower * g ((st.lower + st.upper) / 2)
    · rw [if_pos h2]
      refine ⟨?_, Or.inl ⟨rfl, Or.inr ⟨rfl, rfl⟩, rfl⟩⟩
      -- g l * g m > 0 and g l * g u < 0 give g m * g u < 0
      show g ((st.lower + st.upper) / 2) * g st.upper < 0
      by_contra hc
      push Not at hc
      have hl2 : 0 < g st.lower * g st.lower := by
        rcases lt_trichotomy (g st.lower) 0 with h | h | h
        · exact mul_pos_of_neg_of_neg h h
        · rw [h] at h2; simp at h2
        · exact mul_pos h h
      nlinarith [mul_nonneg hc (le_of_lt hl2), mul_pos h2 (neg_pos.mpr hs)]
    · rw [if_neg h2]
      have h0 : g st.lower * g ((st.lower + st.upper) / 2) = 0 :=
        le_antisymm (not_lt.mp h2) (not_lt.mp h1)
      refine ⟨hs, Or.inr ⟨rfl, rfl, rfl, ?_, ?_, h0⟩⟩
      · by_cases h3 : g st.lower = 0
        · simp only [if_pos h3]; exact h3
        · simp only [if_neg h3]
          exact (mul_eq_zero.mp h0).resolve_left h3
      · by_cases h3 : g st.lower = 0
        · simp only [if_pos h3]; exact Or.inl trivial
        · simp only [if_neg h3]; exact Or.inr trivial


/-- once a midpoint (or the lower end) is an exact root, the bracket no longer moves -/
theorem passK_frozen (g : K → K) (first : Bool) (st : BState K)
    (h0 : g st.lower * g ((st.lower + st.upper) / 2) = 0) :
    (passK g first st).lower = st.lower ∧ (passK g first st).upper = st.upper := by
  unfold passK
  simp only [h0, lt_irrefl, if_false, and_self]

theorem bisectLoop_frozen (g : K → K) (tol : K) :
    ∀ (rem k : Nat) (st : BState K), g st.lower * g ((st.lower + st.upper) / 2) = 0 →
      (bisectLoop (evOf g) tol rem k st).lower = st.lower ∧
      (bisectLoop (evOf g) tol rem k st).upper = st.upper := by
  intro rem
  induction rem with
  | zero =>
    intro k st h0
    rw [bisectLoop_evOf_zero]
    exact passK_frozen g _ st h0
  | succ rem ih =>
    intro k st h0
    obtain ⟨hl, hu⟩ := passK_frozen g (k == 0) st h0
    rw [bisectLoop_evOf_succ]
    split_ifs
    · simp [hl, hu]
    · have := ih (k + 1) (passK g (k == 0) st) (by rw [hl, hu]; exact h0)
      rw [this.1, this.2, hl, hu]
      exact ⟨rfl, rfl⟩

/-- loop-level invariant: the final bracket lies in the starting one, still has the strict sign
change, and its width is the starting width halved `h` times, where `h` is the number of passes
unless a midpoint (or the lower end) hit a root exactly -/
theorem bisectLoop_keeps (g : K → K) (tol : K) :
    ∀ (rem k : Nat) (st : BState K), st.lower ≤ st.upper → g st.lower * g st.upper < 0 →
      let r := bisectLoop (evOf g) tol rem k st
      st.lower ≤ r.lower ∧ r.lower ≤ r.upper ∧ r.upper ≤ st.upper ∧ g r.lower * g r.upper < 0 ∧
      ∃ h : Nat, h ≤ r.passes - k ∧ (r.upper - r.lower) * 2 ^ h = st.upper - st.lower ∧
        (h = r.passes - k ∨ ∃ x, r.lower ≤ x ∧ x ≤ r.upper ∧ g x = 0) := by
  intro rem
  induction rem with
  | zero =>
    intro k st hle hs
    simp only
    rw [bisectLoop_evOf_zero]
    obtain ⟨h1, h2, h3, h4⟩ := bisectPass_bracket (bisectPass_evOf g (k == 0) st) hle
    obtain ⟨hs', hcase⟩ := passK_spec g (k == 0) st hs
    refine ⟨h1, le_trans h2 h3, h4, hs', ?_⟩
    simp only [Nat.add_sub_cancel_left]
    rcases hcase with ⟨_, hb, _⟩ | ⟨hl, hu, _, hroot, _, _⟩
    · refine ⟨1, le_refl _, ?_, Or.inl rfl⟩
      rcases hb with ⟨a, b⟩ | ⟨a, b⟩ <;> rw [a, b] <;> ring
    · refine ⟨0, Nat.zero_le _, by rw [hl, hu]; ring, Or.inr ⟨_, h2, h3, hroot⟩⟩
  | succ rem ih =>
    intro k st hle hs
    simp only
    obtain ⟨h1, h2, h3, h4⟩ := bisectPass_bracket (bisectPass_evOf g (k == 0) st) hle
    obtain ⟨hs', hcase⟩ := passK_spec g (k == 0) st hs
    rw [bisectLoop_evOf_succ]
    split_ifs with hstop
    · -- the loop stops after this pass
      simp only [finish_lower, finish_upper, finish_passes, Nat.add_sub_cancel_left]
      refine ⟨h1, le_trans h2 h3, h4, hs', ?_⟩
      rcases hcase with ⟨_, hb, _⟩ | ⟨hl, hu, _, hroot, _, _⟩
      · refine ⟨1, le_refl _, ?_, Or.inl rfl⟩
        rcases hb with ⟨a, b⟩ | ⟨a, b⟩ <;> rw [a, b] <;> ring
      · refine ⟨0, Nat.zero_le _, by rw [hl, hu]; ring, Or.inr ⟨_, h2, h3, hroot⟩⟩
    · -- it goes on from the new state
      obtain ⟨i1, i2, i3, i4, h, hh, hw, hlast⟩ := ih (k + 1) (passK g (k == 0) st) (le_trans h2 h3) hs'
      have hp := (bisectLoop_passes (evOf g) tol rem (k + 1) (passK g (k == 0) st)).1
      refine ⟨le_trans h1 i1, i2, le_trans i3 h4, i4, ?_⟩
      rcases hcase with ⟨_, hb, _⟩ | ⟨hl, hu, _, hroot, _, h0⟩
      · refine ⟨h + 1, by omega, ?_, ?_⟩
        · rw [pow_succ, ← mul_assoc, hw]
          rcases hb with ⟨a, b⟩ | ⟨a, b⟩ <;> rw [a, b] <;> ring
        · rcases hlast with e | e
          · exact Or.inl (by omega)
          · exact Or.inr e
      · -- an exact root was hit: the bracket is frozen from here on
        have hfr := bisectLoop_frozen g tol rem (k + 1) (passK g (k == 0) st) (by rw [hl, hu]; exact h0)
        refine ⟨0, Nat.zero_le _, ?_, Or.inr ⟨(passK g (k == 0) st).x, ?_, ?_, hroot⟩⟩
        · rw [hfr.1, hfr.2, hl, hu]; ring
        · rw [hfr.1]; exact h2
        · rw [hfr.2]; exact h3


/-! ### completeness for brackets that stay away from 0 -/

/-- `g` is `L`-Lipschitz on `[lo, hi]` -/
def LipOn (g : K → K) (L lo hi : K) : Prop :=
  ∀ x y, lo ≤ x → x ≤ hi → lo ≤ y → y ≤ hi → |g x - g y| ≤ L * |x - y|

/-- inside a bracket with a strict sign change, a Lipschitz function is small everywhere
(no intermediate value theorem needed: one of the two ends has the other sign) -/
theorem abs_le_of_sign_change {g : K → K} {L lo hi l u x : K} (hL : LipOn g L lo hi)
    (hlo : lo ≤ l) (hlx : l ≤ x) (hxu : x ≤ u) (huh : u ≤ hi) (hs : g l * g u < 0) :
    |g x| ≤ L * (u - l) := by
  have hLnn : 0 ≤ L := by
    have := hL l u hlo (by linarith) (by linarith) huh
    by_contra hneg
    push Not at hneg
    have hlu : l ≠ u := by rintro rfl; nlinarith [mul_self_nonneg (g l)]
    have : 0 < |l - u| := abs_pos.mpr (sub_ne_zero.mpr hlu)
    nlinarith [abs_nonneg (g l - g u)]
  have hxl := hL x l (by linarith) (by linarith) hlo (by linarith)
  have hxu' := hL x u (by linarith) (by linarith) (by linarith) huh
  rw [abs_of_nonneg (by linarith : 0 ≤ x - l)] at hxl
  rw [abs_of_nonpos (by linarith : x - u ≤ 0)] at hxu'
  have b1 : L * (x - l) ≤ L * (u - l) := mul_le_mul_of_nonneg_left (by linarith) hLnn
  have b2 : L * -(x - u) ≤ L * (u - l) := mul_le_mul_of_nonneg_left (by linarith) hLnn
  rcases mul_neg_iff.mp hs with ⟨hl, hu⟩ | ⟨hl, hu⟩
  · -- g l > 0 > g u
    rcases le_total 0 (g x) with hx | hx
    · rw [abs_of_nonneg hx]
      have := (abs_le.mp hxu').2
      linarith
    · rw [abs_of_nonpos hx]
      have := (abs_le.mp hxl).1
      linarith
  · rcases le_total 0 (g x) with hx | hx
    · rw [abs_of_nonneg hx]
      have := (abs_le.mp hxl).2
      linarith
    · rw [abs_of_nonpos hx]
      have := (abs_le.mp hxu').1
      linarith

/-- a `NoConvergence` answer means the final bracket is still wide compared with the gate -/
theorem finish_evOf_ok_of_small {g : K → K} {st : BState K} {p : Nat} (h : |g st.x| < gate) :
    (finish (evOf g) st p).out = .ok st.x := by
  unfold finish evOf
  simp only [sabs_eq_abs, if_pos h]


theorem LipOn.nonneg {g : K → K} {L lo hi l u : K} (hL : LipOn g L lo hi)
    (hlo : lo ≤ l) (hlu : l ≤ u) (huh : u ≤ hi) (hs : g l * g u < 0) : 0 ≤ L := by
  have := hL l u hlo (by linarith) (by linarith) huh
  by_contra hneg
  push Not at hneg
  have hne : l ≠ u := by rintro rfl; nlinarith [mul_self_nonneg (g l)]
  have : 0 < |l - u| := abs_pos.mpr (sub_ne_zero.mpr hne)
  nlinarith [abs_nonneg (g l - g u)]

/-- one pass (not the first) from a bracket with a sign change that stays away from 0: either the
loop stops after it and the residual gate is passed, or it does not stop, the invariant holds for
the new state, the width has halved, and the old width was still at least `tol·c·2/100` -/
theorem complete_step {g : K → K} {L lo hi c X tol : K} (hL : LipOn g L lo hi) (hc : 0 < c)
    (haway : ∀ x, lo ≤ x → x ≤ hi → c ≤ |x| ∧ |x| ≤ X) (htol : 0 < tol)
    (hsmall : L * tol * X < gate * 100) (st : BState K)
    (hlo : lo ≤ st.lower) (hlt : st.lower < st.upper) (hhi : st.upper ≤ hi)
    (hs : g st.lower * g st.upper < 0) (hx : st.x = st.lower ∨ st.x = st.upper) :
    (|(passK g false st).aerr| < tol ∧ |g (passK g false st).x| < gate) ∨
    (¬ |(passK g false st).aerr| < tol ∧ lo ≤ (passK g false st).lower ∧
      (passK g false st).lower < (passK g false st).upper ∧ (passK g false st).upper ≤ hi ∧
      g (passK g false st).lower * g (passK g false st).upper < 0 ∧
      ((passK g false st).x = (passK g false st).lower ∨ (passK g false st).x = (passK g false st).upper) ∧
      ((passK g false st).upper - (passK g false st).lower) * 2 = st.upper - st.lower ∧
      tol * c * 2 ≤ (st.upper - st.lower) * 100) := by
  obtain ⟨hs', hcase⟩ := passK_spec g false st hs
  have hLnn : 0 ≤ L := hL.nonneg hlo (le_of_lt hlt) hhi hs
  have hm1 : st.lower < (st.lower + st.upper) / 2 := by linarith
  have hm2 : (st.lower + st.upper) / 2 < st.upper := by linarith
  obtain ⟨hcm, hmX⟩ := haway ((st.lower + st.upper) / 2) (by linarith) (by linarith)
  have hmpos : 0 < |(st.lower + st.upper) / 2| := lt_of_lt_of_le hc hcm
  have hm0 : (st.lower + st.upper) / 2 ≠ 0 := abs_pos.mp hmpos
  rcases hcase with ⟨hxm, hb, haerr⟩ | ⟨_, _, haerr, hroot, _, _⟩
  · have habs : |(st.lower + st.upper) / 2 - st.x| = (st.upper - st.lower) / 2 := by
      rcases hx with e | e <;> rw [e]
      · rw [abs_of_pos (by linarith)]; ring
      · rw [abs_of_neg (by linarith)]; ring
    have he : |(passK g false st).aerr| = (st.upper - st.lower) / 2 * 100 / |(st.lower + st.upper) / 2| := by
      rw [haerr, nextErr, if_pos ⟨rfl, hm0⟩, habs, abs_mul, abs_div,
        abs_of_pos (by linarith : 0 < (st.upper - st.lower) / 2), abs_of_pos (by norm_num : (0 : K) < 100)]
      ring
    have hwidth : (passK g false st).upper - (passK g false st).lower = (st.upper - st.lower) / 2 := by
      rcases hb with ⟨a, b⟩ | ⟨a, b⟩ <;> rw [a, b] <;> ring
    by_cases hstop : |(passK g false st).aerr| < tol
    · left
      refine ⟨hstop, ?_⟩
      rw [he, div_lt_iff₀ hmpos] at hstop
      have hg : |g (passK g false st).x| ≤ L * ((passK g false st).upper - (passK g false st).lower) := by
        apply abs_le_of_sign_change hL _ _ _ _ hs'
        · rcases hb with ⟨a, _⟩ | ⟨a, _⟩ <;> rw [a] <;> linarith
        · rcases hb with ⟨a, _⟩ | ⟨a, _⟩ <;> rw [a, hxm] <;> linarith
        · rcases hb with ⟨_, b⟩ | ⟨_, b⟩ <;> rw [b, hxm] <;> linarith
        · rcases hb with ⟨_, b⟩ | ⟨_, b⟩ <;> rw [b] <;> linarith
      rw [hwidth] at hg
      have h1 : (st.upper - st.lower) / 2 * 100 < tol * X :=
        lt_of_lt_of_le hstop (mul_le_mul_of_nonneg_left hmX (le_of_lt htol))
      have h2 : L * ((st.upper - st.lower) / 2 * 100) ≤ L * (tol * X) :=
        mul_le_mul_of_nonneg_left (le_of_lt h1) hLnn
      nlinarith
    · right
      refine ⟨hstop, ?_, ?_, ?_, hs', ?_, ?_, ?_⟩
      · rcases hb with ⟨a, _⟩ | ⟨a, _⟩ <;> rw [a] <;> linarith
      · rcases hb with ⟨a, b⟩ | ⟨a, b⟩ <;> rw [a, b] <;> linarith
      · rcases hb with ⟨_, b⟩ | ⟨_, b⟩ <;> rw [b] <;> linarith
      · rcases hb with ⟨a, b⟩ | ⟨a, b⟩
        · right; rw [hxm, b]
        · left; rw [hxm, a]
      · rw [hwidth]; ring
      · rw [he, div_lt_iff₀ hmpos, not_lt] at hstop
        have : tol * c ≤ tol * |(st.lower + st.upper) / 2| := mul_le_mul_of_nonneg_left hcm (le_of_lt htol)
        linarith
  · left
    rw [haerr, hroot]
    simp only [abs_zero]
    exact ⟨htol, gate_pos⟩

/-- Completeness of the loop from any state after the first pass, for a bracket that stays away
from 0 (`c ≤ |x| ≤ X` on `[lo, hi]`): if `rem + 1` passes remain and the width is below
`tol·c·2^(rem+1)/100`, a value is returned. -/
theorem bisectLoop_complete {g : K → K} {L lo hi c X tol : K} (hL : LipOn g L lo hi) (hc : 0 < c)
    (haway : ∀ x, lo ≤ x → x ≤ hi → c ≤ |x| ∧ |x| ≤ X) (htol : 0 < tol)
    (hsmall : L * tol * X < gate * 100) :
    ∀ (rem k : Nat) (st : BState K), k ≠ 0 → lo ≤ st.lower → st.lower < st.upper → st.upper ≤ hi →
      g st.lower * g st.upper < 0 → (st.x = st.lower ∨ st.x = st.upper) →
      (st.upper - st.lower) * 100 < tol * c * 2 ^ (rem + 1) →
      ∃ x, (bisectLoop (evOf g) tol (rem + 1) k st).out = .ok x := by
  intro rem
  induction rem with
  | zero =>
    intro k st hk hlo hlt hhi hs hx hw
    have hk' : (k == 0) = false := by simpa using hk
    rw [bisectLoop_evOf_succ, hk']
    rcases complete_step hL hc haway htol hsmall st hlo hlt hhi hs hx with ⟨h1, h2⟩ | ⟨_, _, _, _, _, _, _, hbig⟩
    · rw [if_pos h1]
      exact ⟨_, finish_evOf_ok_of_small h2⟩
    · exfalso
      simp only [zero_add, pow_one] at hw
      linarith
  | succ rem ih =>
    intro k st hk hlo hlt hhi hs hx hw
    have hk' : (k == 0) = false := by simpa using hk
    rw [bisectLoop_evOf_succ, hk']
    rcases complete_step hL hc haway htol hsmall st hlo hlt hhi hs hx with
      ⟨h1, h2⟩ | ⟨hgo, a1, a2, a3, a4, a5, hw2, _⟩
    · rw [if_pos h1]
      exact ⟨_, finish_evOf_ok_of_small h2⟩
    · rw [if_neg hgo]
      apply ih (k + 1) _ (Nat.succ_ne_zero k) a1 a2 a3 a4 a5
      rw [pow_succ] at hw
      linarith


/-! ### `NoConvergence` means the final bracket is still wide -/

theorem finish_noConv {g : K → K} {st : BState K} {p : Nat}
    (h : (finish (evOf g) st p).out = .err .noConvergence) : gate ≤ |g st.x| := by
  unfold finish evOf at h
  simp only [sabs_eq_abs] at h
  split_ifs at h with hg
  exact not_lt.mp hg

theorem bisectLoop_noConv {g : K → K} {L lo hi tol : K} (hL : LipOn g L lo hi) :
    ∀ (rem k : Nat) (st : BState K), lo ≤ st.lower → st.lower ≤ st.upper → st.upper ≤ hi →
      g st.lower * g st.upper < 0 →
      (bisectLoop (evOf g) tol rem k st).out = .err .noConvergence →
      gate ≤ L * ((bisectLoop (evOf g) tol rem k st).upper - (bisectLoop (evOf g) tol rem k st).lower) := by
  intro rem
  induction rem with
  | zero =>
    intro k st _ _ _ _ h
    rw [bisectLoop_evOf_zero] at h
    cases h
  | succ rem ih =>
    intro k st hlo hle hhi hs h
    obtain ⟨h1, h2, h3, h4⟩ := bisectPass_bracket (bisectPass_evOf g (k == 0) st) hle
    obtain ⟨hs', _⟩ := passK_spec g (k == 0) st hs
    rw [bisectLoop_evOf_succ] at h ⊢
    split_ifs at h ⊢ with hstop
    · simp only [finish_lower, finish_upper]
      exact le_trans (finish_noConv h)
        (abs_le_of_sign_change hL (le_trans hlo h1) h2 h3 (le_trans h4 hhi) hs')
    · exact ih (k + 1) _ (le_trans hlo h1) (le_trans h2 h3) (le_trans h4 hhi) hs' h

/-! ### from the polynomial entry point to the core loop -/

variable (powf : K → K → K)

theorem bisection_eq_core {p q : AnyPoly K} {mode : SolveMode} (hq : target p mode = .ok q)
    (lo init hi tol : K) (itermax : Nat) :
    bisection powf p lo init hi tol itermax mode = bisectCore (q.evalUni powf) lo init hi tol itermax := by
  unfold bisection bisectCore
  rw [hq]

theorem bisection_target_error {p : AnyPoly K} {mode : SolveMode} {e : PErr}
    (hq : target p mode = .error e) (lo init hi tol : K) (itermax : Nat) :
    (bisection powf p lo init hi tol itermax mode).out = .err .xInitOutOfBounds ∨
    (bisection powf p lo init hi tol itermax mode).out = .err (.functionError e) := by
  unfold bisection
  rw [hq]
  split_ifs
  · exact Or.inl rfl
  · exact Or.inr rfl

/-- evaluation of a dense polynomial never fails: it is the total function `evalSimple cs` -/
theorem evalUni_simple (cs : List K) (v : Option Char) :
    (AnyPoly.simple ⟨cs, v⟩).evalUni powf = evOf (evalSimple cs) := rfl

theorem target_simple_root (cs : List K) (v : Option Char) :
    target (AnyPoly.simple ⟨cs, v⟩) .root = .ok (.simple ⟨cs, v⟩) := rfl

theorem target_simple_extrema (cs : List K) (v : Option Char) :
    target (AnyPoly.simple ⟨cs, v⟩) .extrema = .ok (.simple ⟨simpleDeriv cs, v⟩) := rfl

/-- the target function of a dense polynomial, as a `Polynomial` -/
noncomputable def targetPoly (cs : List K) : SolveMode → Polynomial K
  | .root => ofCoeffs cs
  | .extrema => Polynomial.derivative (ofCoeffs cs)

theorem bisection_simple (cs : List K) (v : Option Char) (mode : SolveMode)
    (lo init hi tol : K) (itermax : Nat) :
    bisection powf (.simple ⟨cs, v⟩) lo init hi tol itermax mode =
      bisectCore (evOf fun x => (targetPoly cs mode).eval x) lo init hi tol itermax := by
  cases mode
  · rw [bisection_eq_core powf (target_simple_root cs v), evalUni_simple]
    have : evalSimple cs = fun x => (ofCoeffs cs).eval x := funext (evalSimple_eq cs)
    rw [this]; rfl
  · rw [bisection_eq_core powf (target_simple_extrema cs v), evalUni_simple]
    have : evalSimple (simpleDeriv cs) = fun x => (Polynomial.derivative (ofCoeffs cs)).eval x := by
      funext x; rw [evalSimple_eq, ofCoeffs_simpleDeriv]
    rw [this]; rfl

/-! ### sparse polynomials in one variable evaluate totally -/

/-- a sparse polynomial in the single variable `v`: the variable list is `[v]` and no term mentions
another name (what the parser produces for a univariate input with a variable) -/
def UnivariateIn (v : String) (p : IPoly K) : Prop :=
  p.variables = [v] ∧ ∀ t ∈ p.terms, ∀ q ∈ t.vars, q.1 = v

/-- value of one term at `x`: `coef · Π powf x eᵢ` (left to right) -/
def termAt (powf : K → K → K) (x : K) (acc : K) (vs : List (String × K)) : K :=
  vs.foldl (fun a q => a * powf x q.2) acc

/-- value of the polynomial at `x`: terms added left to right from 0 -/
def valueAt (powf : K → K → K) (terms : List (Term K)) (x : K) : K :=
  terms.foldl (fun a t => a + termAt powf x t.coef t.vars) 0

theorem lookup_single (v : String) (x : K) : lookup [(v, x)] v = some x := by
  simp [lookup]

theorem termValue_univariate (powf : K → K → K) (v : String) (x : K) :
    ∀ (vs : List (String × K)) (acc : K), (∀ q ∈ vs, q.1 = v) →
      termValue powf (lookup [(v, x)]) acc vs = .ok (termAt powf x acc vs) := by
  intro vs
  induction vs with
  | nil => intro acc _; rfl
  | cons q vs ih =>
    intro acc h
    obtain ⟨name, e⟩ := q
    have hn : name = v := h (name, e) (List.mem_cons_self ..)
    subst hn
    unfold termValue
    rw [lookup_single]
    simp only
    rw [ih _ (fun q hq => h q (List.mem_cons_of_mem _ hq))]
    rfl

theorem evalTermsFrom_univariate (powf : K → K → K) (v : String) (x : K) :
    ∀ (ts : List (Term K)) (acc : K), (∀ t ∈ ts, ∀ q ∈ t.vars, q.1 = v) →
      evalTermsFrom powf (lookup [(v, x)]) acc ts =
        .ok (ts.foldl (fun a t => a + termAt powf x t.coef t.vars) acc) := by
  intro ts
  induction ts with
  | nil => intro acc _; rfl
  | cons t ts ih =>
    intro acc h
    unfold evalTermsFrom
    rw [termValue_univariate powf v x t.vars t.coef (h t (List.mem_cons_self ..))]
    simp only
    rw [ih _ (fun t ht => h t (List.mem_cons_of_mem _ ht))]
    rfl

/-- evaluation of a univariate sparse polynomial never fails: it is the total function `valueAt` -/
theorem evalUni_inter (powf : K → K → K) (v : String) (p : IPoly K) (hp : UnivariateIn v p) :
    (AnyPoly.inter p).evalUni powf = evOf (valueAt powf p.terms) := by
  funext x
  obtain ⟨hv, ht⟩ := hp
  simp only [AnyPoly.evalUni, Poly.evalUni, hv, List.length_singleton, gt_iff_lt, lt_irrefl,
    if_false, evalTerms, evOf, valueAt]
  exact evalTermsFrom_univariate powf v x p.terms 0 ht


/-- root mode on a univariate sparse polynomial is the core loop at the total function `valueAt`,
so every theorem stated for `evOf g` applies to `IntermediatePolynomial` inputs as well -/
theorem bisection_inter_root (v : String) (p : IPoly K) (hp : UnivariateIn v p)
    (lo init hi tol : K) (itermax : Nat) :
    bisection powf (.inter p) lo init hi tol itermax .root =
      bisectCore (evOf (valueAt powf p.terms)) lo init hi tol itermax := by
  rw [bisection_eq_core powf (q := .inter p) rfl, evalUni_inter powf v p hp]

end SV.C06
